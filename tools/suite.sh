#!/bin/sh
# run the repository's own suite with the guard OFF (dev tool); prints the summary line
cd "${1:-/repo}" && env -u ICALENDAR_VERIF PYTHONPATH="${1:-/repo}/src" PYTHONHASHSEED=0 /venv/bin/python -m pytest -q -p no:cacheprovider -n 12 2>&1 | tail -6
