#!/bin/sh
# run every check of a tier for several seeds on the current tree; print one line per run (dev tool)
# usage: sweep.sh quick "0 1 2 3 7" [props...]
tier="${1:-quick}"; seeds="${2:-0 1 2 3 7}"; shift 2 2>/dev/null
props="${*:-C01 C02 C03 C04 C05 C06 C07 C08 C09 C10 C11 C12 C13 C14 C15 C16 C17 C18 C19 C20}"
cd "$(dirname "$0")/.." || exit 2
export VERIF_EVIDENCE_DIR="$PWD/.work/evidence-sweep"
for s in $seeds; do for p in $props; do
  out=$(PYTHONHASHSEED=0 VERIF_SEED=$s ./check $p $tier 2>&1); rc=$?
  echo "rc=$rc $(echo "$out" | grep -c '^VIOLATION') violations :: $(echo "$out" | tail -1 | cut -c1-170)"
  [ $rc -ne 0 ] && echo "$out" | grep -v '^KNOWN' | head -12 | cut -c1-400
done; done
