#!/usr/bin/env python3
"""Automatic mutation campaign (dev tool): token-level mutants of the anchored source files that survive the repository's own
suite are run against the checks of the properties anchored in that file; prints which survive the checks too (to be reviewed by hand:
equivalent mutant or gap).   usage: automut.py <relpath under /repo> <n mutants> <seed> [props,comma]
Works in its own scratch worktree (VERIF_REPO points the checks at it): /repo itself is never touched."""
import io, json, os, random, re, subprocess, sys, tokenize

rel, n, seed = sys.argv[1], int(sys.argv[2]), int(sys.argv[3])
HERE = os.path.dirname(os.path.dirname(os.path.abspath(__file__)))
props = sys.argv[4].split(",") if len(sys.argv) > 4 else sorted({p["id"] for p in map(json.loads, open(os.path.join(HERE, "properties.jsonl"))) if rel in p["anchors"]["files"]})
src = subprocess.run(["git", "-C", "/repo", "show", "HEAD:" + rel], capture_output=True, text=True, check=True).stdout
SWAP = {"==": "!=", "!=": "==", "<": "<=", "<=": "<", ">": ">=", ">=": ">", "and": "or", "or": "and", "True": "False", "False": "True", "+": "-", "-": "+", "is": "is not"}
toks = list(tokenize.generate_tokens(io.StringIO(src).readline))
lines = src.splitlines(keepends=True)
cands = []
for i, t in enumerate(toks):
    if t.type in (tokenize.OP, tokenize.NAME) and t.string in SWAP:
        if t.string in ("+", "-") and toks[i - 1].type == tokenize.OP and toks[i - 1].string in "(,=[:":
            continue    # unary
        if t.string == "is" and toks[i + 1].string == "not":
            continue
        cands.append(("swap", t.start, t.end, SWAP[t.string]))
    elif t.type == tokenize.NAME and t.string == "not" and toks[i - 1].string != "is":
        cands.append(("swap", t.start, t.end, ""))
    elif t.type == tokenize.NUMBER and re.fullmatch(r"\d+", t.string) and len(t.string) < 5:
        cands.append(("swap", t.start, t.end, str(int(t.string) + 1)))
    elif t.type == tokenize.NAME and t.string in ("upper", "lower", "strip") and toks[i - 1].string == "." and toks[i + 1].string == "(" and toks[i + 2].string == ")":
        cands.append(("dropcall", toks[i - 1].start, toks[i + 2].end, ""))
rng = random.Random(seed)
rng.shuffle(cands)
wt = "/tmp/vs/automut-%d" % os.getpid()
subprocess.run(["git", "-C", "/repo", "worktree", "remove", "--force", wt], capture_output=True)
subprocess.run(["git", "-C", "/repo", "worktree", "add", "--detach", wt, "HEAD"], check=True, capture_output=True)


def mutate(c):
    kind, (r0, c0), (r1, c1), new = c
    assert r0 == r1
    l = lines[r0 - 1]
    out = list(lines)
    out[r0 - 1] = l[:c0] + new + l[c1:]
    return "".join(out), f"{rel}:{r0}: {l.strip()[:90]}  ->  {out[r0 - 1].strip()[:90]}"


done = 0
try:
    for c in cands:
        if done >= n:
            break
        text, desc = mutate(c)
        open(os.path.join(wt, rel), "w").write(text)
        env = dict(os.environ, PYTHONPATH=wt + "/src", PYTHONHASHSEED="0")
        env.pop("ICALENDAR_VERIF", None)
        if subprocess.run(["/venv/bin/python", "-c", "import icalendar"], env=env, capture_output=True, cwd="/tmp").returncode:
            continue
        r = subprocess.run(["/venv/bin/python", "-m", "pytest", "-q", "-x", "-p", "no:cacheprovider", "-n", "12", "--deselect",
                            "src/icalendar/tests/test_issue_722_generate_vtimezone.py::test_we_can_identify_dateutil_timezones", "--deselect",
                            "src/icalendar/tests/test_timezone_identification.py::test_can_identify_dateutil"], env=env, cwd=wt, capture_output=True, text=True, timeout=1800)
        if r.returncode != 0:
            continue        # killed by the repository's own tests: not interesting
        done += 1
        caught = []
        try:
            for p in props:
                e = dict(os.environ, VERIF_REPO=wt, VERIF_EVIDENCE_DIR=os.path.join(HERE, ".work", "evidence-scratch"), VERIF_SOFT_SCALE=os.environ.get("AUTOMUT_SCALE", "0.7"))
                rr = subprocess.run([os.path.join(HERE, "check"), p, "quick"], capture_output=True, text=True, env=e)
                if rr.returncode == 1:
                    caught.append(p)
                    break
                if rr.returncode == 2:
                    print('  (inconclusive: %s)' % p, flush=True)
        finally:
            open(os.path.join(wt, rel), "w").write(src)
        print(("CAUGHT by " + caught[0]) if caught else "SURVIVES ALL", "::", desc, flush=True)
finally:
    subprocess.run(["git", "-C", "/repo", "worktree", "remove", "--force", wt], capture_output=True)
