#!/usr/bin/env python3
"""Apply one textual mutation to /repo, run a check, restore.  Dev tool only.
usage: mut.py Cxx[,Cyy] relpath 'old' 'new' [tier]
"""
import subprocess, sys, os
props, rel, old, new = sys.argv[1:5]
tier = sys.argv[5] if len(sys.argv) > 5 else "quick"
path = os.path.join("/repo", rel)
src = open(path).read()
assert src.count(old) == 1, f"pattern occurs {src.count(old)} times"
try:
    open(path, "w").write(src.replace(old, new))
    for prop in props.split(","):
        r = subprocess.run(["/verif/check", prop, tier], capture_output=True, text=True, env=dict(__import__("os").environ, VERIF_EVIDENCE_DIR="/verif/.work/evidence-scratch"))
        lines = r.stdout.strip().splitlines()
        v = [l for l in lines if l.startswith("VIOLATION")]
        print(f"[{prop}] exit={r.returncode} violations={len(v)}")
        for l in lines[:8]:
            print("   ", l[:240])
        if r.returncode not in (0, 1):
            print(r.stdout[-800:], r.stderr[-800:])
finally:
    open(path, "w").write(src)
    subprocess.run(["git", "-C", "/repo", "status", "--short"])
