#!/usr/bin/env python3
"""Apply a seeded patch to a scratch worktree of /repo HEAD, run checks against it (VERIF_REPO), remove the worktree.
usage: try_seed.py <patch> Cxx[,Cyy] [tier]      (/repo itself is not touched)"""
import os, subprocess, sys
patch, props = sys.argv[1], sys.argv[2]
tier = sys.argv[3] if len(sys.argv) > 3 else "quick"
wt = "/tmp/vs/try-%d" % os.getpid()
os.makedirs("/tmp/vs", exist_ok=True)
subprocess.run(["git", "-C", "/repo", "worktree", "add", "--detach", wt, "HEAD"], check=True, capture_output=True)
try:
    a = subprocess.run(["git", "-C", wt, "apply", os.path.abspath(patch)], capture_output=True, text=True)
    if a.returncode:
        print("APPLY FAILED", a.stderr); sys.exit(3)
    for prop in props.split(","):
        r = subprocess.run(["/verif/check", prop, tier], capture_output=True, text=True,
                           env=dict(os.environ, VERIF_REPO=wt, VERIF_EVIDENCE_DIR="/verif/.work/evidence-scratch"))
        lines = r.stdout.strip().splitlines()
        v = [l for l in lines if l.startswith("VIOLATION")]
        print(f"[{prop}] exit={r.returncode} violations={len(v)} :: {lines[-1][:160] if lines else ''}")
        for l in lines:
            if l.startswith("VIOLATION") or l.startswith("  kind") or l.startswith("INCONCLUSIVE"):
                print("    " + l[:260])
                if l.startswith("  kind"):
                    break
finally:
    subprocess.run(["git", "-C", "/repo", "worktree", "remove", "--force", wt], capture_output=True)
