#!/usr/bin/env python3
"""Apply a seeded patch to /repo, run checks, undo.  usage: try_seed.py <patch> Cxx[,Cyy] [tier]"""
import subprocess, sys
patch, props = sys.argv[1], sys.argv[2]
tier = sys.argv[3] if len(sys.argv) > 3 else "quick"
assert subprocess.run(["git", "-C", "/repo", "status", "--porcelain", "--untracked-files=no"], capture_output=True, text=True).stdout == "", "repo dirty"
a = subprocess.run(["git", "-C", "/repo", "apply", __import__("os").path.abspath(patch)], capture_output=True, text=True)
if a.returncode:
    print("APPLY FAILED", a.stderr); sys.exit(3)
try:
    for prop in props.split(","):
        r = subprocess.run(["/verif/check", prop, tier], capture_output=True, text=True, env=dict(__import__("os").environ, VERIF_EVIDENCE_DIR="/verif/.work/evidence-scratch"))
        lines = r.stdout.strip().splitlines()
        v = [l for l in lines if l.startswith("VIOLATION")]
        print(f"[{prop}] exit={r.returncode} violations={len(v)} :: {lines[-1][:160] if lines else ''}")
        for l in lines:
            if l.startswith("VIOLATION") or l.startswith("  kind") or l.startswith("INCONCLUSIVE"):
                print("    " + l[:260])
                if l.startswith("  kind"):
                    break
finally:
    subprocess.run(["git", "-C", "/repo", "checkout", "--", "."])
    assert subprocess.run(["git", "-C", "/repo", "status", "--porcelain", "--untracked-files=no"], capture_output=True, text=True).stdout == ""
