#!/usr/bin/env python3
"""Regenerate MANIFEST.json from the property modules that exist (dev tool)."""
import importlib, json, os, sys
HERE = os.path.dirname(os.path.dirname(os.path.abspath(__file__)))
sys.path.insert(0, HERE)
props = [json.loads(l) for l in open(os.path.join(HERE, "properties.jsonl"))]
checks, na, engines = [], [], []
for p in props:
    pid = p["id"]
    path = os.path.join(HERE, "vmon", "props", pid.lower() + ".py")
    if not os.path.exists(path):
        na.append({"property_id": pid, "reason": "check not built yet in this session (planned in DESIGN.md section 7); no claim made"})
        continue
    m = importlib.import_module(f"vmon.props.{pid.lower()}")
    checks.append({
        "property_id": pid,
        "quick_cmd": f"./check {pid} quick",
        "thorough_cmd": f"./check {pid} thorough",
        "evidence_file": f"evidence/{pid}.json",
        "replay_cmd_template": f"./check {pid} --replay {{path}}",
        "engine": "vmon",
        "level_claimed": {
            "category": "exploration",
            "text": m.LEVEL_TEXT,
            "design_ref": f"DESIGN.md section 7, {pid}",
        },
        "level_note": m.LEVEL_NOTE,
        "technique": m.TECHNIQUE,
    })
man = {
    "version": 1,
    "setup_cmd": "./check selftest",
    "hooks": {
        "guard": "ICALENDAR_VERIF",
        "enable": "no source hooks: monitors are attached from /verif by rebinding attributes of the imported icalendar modules (icontract postconditions, sys.monitoring tools) inside worker processes started with ICALENDAR_VERIF=1 and PYTHONPATH=/repo/src",
        "baseline_off_cmd": "cd /repo && env -u ICALENDAR_VERIF /venv/bin/python -m pytest -ra -q -p no:cacheprovider --timeout=900 --continue-on-collection-errors",
        "source_commits": [],
        "add_only": True,
    },
    "engines": [{
        "name": "vmon", "path": "vmon/",
        "serves_properties": [c["property_id"] for c in checks],
        "kind_free_text": "runtime monitoring: oracle-checked executions of the real library in 16 worker subprocesses (reference models, icontract postconditions on the real functions, sys.monitoring step clock / exception tracer), offline merge + known-finding classifier in the parent",
    }],
    "checks": checks,
    "not_applicable": na,
    "notes": "exit 0 held / 1 violation / 2 inconclusive (deciding monitor not reached, watchdog, dependency missing). Known findings: known_findings.json (never written at run time).",
}
json.dump(man, open(os.path.join(HERE, "MANIFEST.json"), "w"), indent=1)
print(f"{len(checks)} checks, {len(na)} not_applicable")
