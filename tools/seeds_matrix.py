#!/usr/bin/env python3
"""Apply every kept seeded change to a scratch worktree of /repo HEAD in turn, run the check of its property (quick) against that
worktree (VERIF_REPO), undo; record who catches what.  Writes seeded/<name>/meta.json:caught_by and seeded/MATRIX.md.
/repo itself is not touched."""
import glob, json, os, subprocess, sys
HERE = os.path.dirname(os.path.dirname(os.path.abspath(__file__)))
only = sys.argv[1:]
rows = []
env = dict(os.environ, VERIF_EVIDENCE_DIR=os.path.join(HERE, ".work", "evidence-scratch"))
WT = "/tmp/vs/matrix-%d" % os.getpid()
os.makedirs("/tmp/vs", exist_ok=True)
subprocess.run(["git", "-C", "/repo", "worktree", "add", "--detach", WT, "HEAD"], check=True, capture_output=True)
env["VERIF_REPO"] = WT
import atexit
atexit.register(lambda: subprocess.run(["git", "-C", "/repo", "worktree", "remove", "--force", WT], capture_output=True))
head = subprocess.run(["git", "-C", "/repo", "rev-parse", "--short", "HEAD"], capture_output=True, text=True).stdout.strip()
for d in sorted(glob.glob(os.path.join(HERE, "seeded", "C*-*"))):
    name = os.path.basename(d)
    if only and name not in only and name.split("-")[0] not in only:
        continue
    meta = json.load(open(os.path.join(d, "meta.json")))
    prop = meta["property"]
    if meta.get("retired"):
        continue
    a = subprocess.run(["git", "-C", WT, "apply", os.path.join(d, "patch.diff")], capture_output=True, text=True)
    if a.returncode:
        rows.append((name, prop, "PATCH DOES NOT APPLY", ""))
        continue
    try:
        r = subprocess.run([os.path.join(HERE, "check"), prop, "quick"], capture_output=True, text=True, env=env)
        lines = r.stdout.splitlines()
        kinds = sorted({l.split("kind=")[1].split()[0] for l in lines if l.startswith("  kind=")})
        verdict = {0: "MISSED", 1: "caught", 2: "inconclusive"}.get(r.returncode, str(r.returncode))
        rows.append((name, prop, verdict, ", ".join(kinds)[:160]))
        meta["caught_by"] = {prop + " quick": {"exit": r.returncode, "violation_kinds": kinds, "repo_head": head}}
        json.dump(meta, open(os.path.join(d, "meta.json"), "w"), indent=1)
    finally:
        subprocess.run(["git", "-C", WT, "checkout", "--", "."])
    print(rows[-1], flush=True)
# the matrix file is regenerated from every meta.json (so partial runs keep the other rows)
allrows = []
for d in sorted(glob.glob(os.path.join(HERE, "seeded", "C*-*"))):
    meta = json.load(open(os.path.join(d, "meta.json")))
    if meta.get("retired"):
        allrows.append((os.path.basename(d), meta["property"], "retired", meta["retired"][:160]))
        continue
    for chk, res in (meta.get("caught_by") or {"(not run)": {"exit": None, "violation_kinds": [], "repo_head": "-"}}).items():
        verdict = {0: "MISSED", 1: "caught", 2: "inconclusive", None: "not run"}.get(res["exit"], str(res["exit"]))
        if verdict == "MISSED" and meta.get("out_of_domain"):
            verdict = "not seen - outside the domain as read, " + meta["out_of_domain"][:120]
        allrows.append((os.path.basename(d), meta["property"], f"{chk}: {verdict} (/repo {res['repo_head']})", ", ".join(res["violation_kinds"])[:160]))
with open(os.path.join(HERE, "seeded", "MATRIX.md"), "w") as f:
    f.write("# Seeded changes vs checks (written by tools/seeds_matrix.py from seeded/*/meta.json)\n\n| seeded change | property | check: verdict | violation kinds reported |\n|---|---|---|---|\n")
    for r in allrows:
        f.write("| " + " | ".join(r) + " |\n")
print("missed:", [r[0] for r in rows if r[2] != "caught"])
