#!/bin/sh
for p in C02 C03 C04 C05 C06 C07 C08 C09 C10 C11 C12 C14 C15 C16 C17 C18 C19 C20 C01 C13; do
  out=$(VERIF_EVIDENCE_DIR=$PWD/.work/ev-thorough ./check $p thorough 2>&1); rc=$?
  echo "rc=$rc $(echo "$out" | tail -1 | cut -c1-200)"
  [ $rc -ne 0 ] && echo "$out" | grep -v '^KNOWN' | head -14 | cut -c1-600
done
