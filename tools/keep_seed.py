#!/usr/bin/env python3
"""Verify a sub-agent's seeded change against /repo HEAD and keep it under /verif/seeded/<name>/.
usage: keep_seed.py <srcdir> <name> <property>"""
import json, os, shutil, subprocess, sys
src, name, prop = sys.argv[1:4]
r = subprocess.run([os.path.join(os.path.dirname(__file__), "verify_seed.py"), src, "--suite"], capture_output=True, text=True)
o = json.loads(r.stdout)
if not o.get("confirmed"):
    print("NOT CONFIRMED", json.dumps(o, indent=1)[:1500]); sys.exit(1)
dst = os.path.join("/verif/seeded", name)
os.makedirs(dst, exist_ok=True)
shutil.copy(os.path.join(src, "rebased.diff"), os.path.join(dst, "patch.diff"))
shutil.copy(os.path.join(src, "demo.py"), os.path.join(dst, "demo.py"))
notes = open(os.path.join(src, "NOTES.md")).read() if os.path.exists(os.path.join(src, "NOTES.md")) else ""
open(os.path.join(dst, "NOTES.md"), "w").write(notes)
head = subprocess.run(["git", "-C", "/repo", "rev-parse", "--short", "HEAD"], capture_output=True, text=True).stdout.strip()
meta = {
    "property": prop,
    "origin": "independent sub-agent given only the property text and a scratch worktree",
    "needs_to_manifest": notes.strip()[:1200],
    "confirmed_by_me": {
        "repo_head": head,
        "demo_on_clean_tree_exit": o["demo_clean"][0],
        "demo_with_patch_exit": o["demo_patched"][0],
        "suite_clean": o["suite_clean"][0], "suite_patched": o["suite_patched"][0],
        "suite_failing_tests_identical": o["suite_clean"][1] == o["suite_patched"][1],
        "how": "tools/verify_seed.py: fresh git worktree of /repo HEAD under /tmp/vs, PYTHONPATH=<wt>/src; demo.py before/after `git apply patch.diff`; full pytest suite before/after (-n 8, PYTHONHASHSEED=0); worktree removed",
    },
    "caught_by": {},
}
json.dump(meta, open(os.path.join(dst, "meta.json"), "w"), indent=1)
print("kept", dst)
