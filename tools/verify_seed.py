#!/usr/bin/env python3
"""Confirm a seeded change: applies to /repo HEAD, demo passes clean / fails patched, suite == clean baseline.
usage: verify_seed.py <dir with patch.diff demo.py> [--suite]
Uses a scratch worktree under /tmp/vs and removes it."""
import json, os, re, subprocess, sys, shutil
d = os.path.abspath(sys.argv[1])
run_suite = "--suite" in sys.argv
wt = "/tmp/vs/" + re.sub(r"\W", "_", d)
os.makedirs("/tmp/vs", exist_ok=True)
subprocess.run(["git", "-C", "/repo", "worktree", "remove", "--force", wt], capture_output=True)
subprocess.run(["git", "-C", "/repo", "worktree", "add", "--detach", wt, "HEAD"], check=True, capture_output=True)
env = dict(os.environ, PYTHONPATH=wt + "/src", PYTHONHASHSEED="0")
env.pop("ICALENDAR_VERIF", None)
def demo():
    r = subprocess.run(["/venv/bin/python", os.path.join(d, "demo.py")], env=env, capture_output=True, text=True, timeout=600, cwd="/tmp")
    return r.returncode, (r.stdout + r.stderr)[-400:]
def suite():
    r = subprocess.run(["/venv/bin/python", "-m", "pytest", "-q", "-p", "no:cacheprovider", "-n", "8"], env=env, cwd=wt, capture_output=True, text=True, timeout=1800)
    fails = sorted(l for l in r.stdout.splitlines() if l.startswith(("FAILED", "ERROR")))
    summ = [l for l in r.stdout.splitlines() if " passed" in l][-1:]
    return summ, fails
out = {"dir": d}
try:
    out["demo_clean"] = demo()
    if run_suite:
        out["suite_clean"] = suite()
    for cmd in (["git", "-C", wt, "apply"], ["git", "-C", wt, "apply", "--3way"], ["patch", "-d", wt, "-p1", "-F3", "--no-backup-if-mismatch", "-i"]):
        a = subprocess.run(cmd + [os.path.join(d, "patch.diff")], capture_output=True, text=True)
        if a.returncode == 0:
            chk = subprocess.run(["grep", "-rlE", "^(<<<<<<<|>>>>>>>)", wt + "/src"], capture_output=True, text=True)
            imp = subprocess.run(["/venv/bin/python", "-c", "import icalendar"], env=env, capture_output=True, text=True, cwd="/tmp")
            if not chk.stdout.strip() and imp.returncode == 0:
                break
            a = subprocess.CompletedProcess(cmd, 1, "", "conflict markers or import failure after " + cmd[-1])
        subprocess.run(["git", "-C", wt, "checkout", "--", "."], capture_output=True)
    out["apply"] = a.returncode, (a.stdout + a.stderr)[-300:], cmd[-1]
    if a.returncode == 0:
        subprocess.run(["git", "-C", wt, "reset", "-q"], capture_output=True)
        diff = subprocess.run(["git", "-C", wt, "diff", "--", "src"], capture_output=True, text=True).stdout
        open(os.path.join(d, "rebased.diff"), "w").write(diff)
    if a.returncode == 0:
        out["demo_patched"] = demo()
        if run_suite:
            out["suite_patched"] = suite()
    ok = (out["demo_clean"][0] == 0 and out["apply"][0] == 0 and out["demo_patched"][0] != 0
          and (not run_suite or (out["suite_clean"][1] == out["suite_patched"][1]
               and re.sub(r" in [\d.]+s.*", "", out["suite_clean"][0][0]) == re.sub(r" in [\d.]+s.*", "", out["suite_patched"][0][0]))))
    out["confirmed"] = ok
finally:
    subprocess.run(["git", "-C", "/repo", "worktree", "remove", "--force", wt], capture_output=True)
print(json.dumps(out, indent=1))
