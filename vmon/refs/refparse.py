"""Reference reader: RFC 5545 text -> R8 observation, built only from the reference models
(R3 unfold, R2 tokenizer, R10 registry, R4 grammars/evaluators, R1 TEXT codec).

It plays "what the text denotes" for well-formed generated calendars.  The line splitter is a
parameter so that the same reader, run with the placeholder defect model, predicts what the
library does today (used only by known-finding classifiers).
"""
from datetime import datetime, timedelta

from . import contentline as R2, text as R1, values as R4
from .tree import canon_param

# R10: property name -> value kind the RFC assigns (RFC 5545 3.7/3.8, RFC 9074 ACKNOWLEDGED)
KIND = {}
for _n in ("CALSCALE METHOD PRODID VERSION CLASS COMMENT DESCRIPTION LOCATION STATUS SUMMARY TRANSP TZID TZNAME CONTACT "
           "RELATED-TO UID ACTION REQUEST-STATUS").split():
    KIND[_n] = "text"
for _n in "ATTACH TZURL URL".split():
    KIND[_n] = "uri"
for _n in "PERCENT-COMPLETE PRIORITY REPEAT SEQUENCE".split():
    KIND[_n] = "int"
for _n in "COMPLETED DTEND DUE DTSTART RECURRENCE-ID CREATED DTSTAMP LAST-MODIFIED ACKNOWLEDGED DURATION TRIGGER".split():
    KIND[_n] = "ddd"
for _n in "EXDATE RDATE".split():
    KIND[_n] = "datelist"
for _n in "RRULE EXRULE".split():
    KIND[_n] = "recur"
for _n in "TZOFFSETFROM TZOFFSETTO".split():
    KIND[_n] = "utcoffset"
for _n in "ATTENDEE ORGANIZER".split():
    KIND[_n] = "caladdress"
KIND.update({"CATEGORIES": "categories", "GEO": "geo", "FREEBUSY": "freebusy", "RESOURCES": "textlist"})
# RFC 5545 3.8.1.10: RESOURCES is a COMMA-separated list of TEXT values.  The library registers it as a single TEXT
# (known finding multivalue-text-collapsed); ``resources_as_list=False`` gives that reading for classifiers.
DEFAULT_TYPE = {"ddd": None}
TZID_NAMES = ("DTSTART", "DTEND", "RECURRENCE-ID", "DUE", "RDATE", "EXDATE", "FREEBUSY")
LENIENT = ("VEVENT",)


class RefReject(ValueError):
    pass


def split_r2(line):
    name, params, value = R2.parse(line)
    return name, {k.upper(): canon_param([v for v, _ in vs]) for k, vs in params}, value


def split_defect(line):
    from .. import defects
    r = defects.lenient_parts(line)
    if r[0] == "reject":
        raise R2.R2Error("lenient split rejects")
    return r[1], {k: canon_param(v) if isinstance(v, list) else v for k, v in r[2].items()}, r[3]


def split_lenient(line):
    """the library's tolerant split without the placeholder mechanism (classifiers only)"""
    from .. import defects
    r = defects.lenient_parts(line, placeholders=False)
    if r[0] == "reject":
        raise R2.R2Error("lenient split rejects")
    return r[1], {k: canon_param(v) if isinstance(v, list) else v for k, v in r[2].items()}, r[3]


# Windows display names other producers write as TZID (CLDR windowsZones, territory 001) - the few the generator uses
WINDOWS_NAMES = {"Eastern Standard Time": "America/New_York", "W. Europe Standard Time": "Europe/Berlin", "Tokyo Standard Time": "Asia/Tokyo",
                 "GMT Standard Time": "Europe/London"}


class Zones:
    """tz lookup for the expected observation: the active provider's own data (S6), custom fixed-offset zones from the text."""
    _known = {}          # (provider, cleaned id) -> tzinfo or None   (misses are expensive: cache them too)

    def __init__(self, provider):
        self.provider = provider
        self.custom = {}

    def _provider_zone(self, clean):
        k = (self.provider, clean)
        if k not in Zones._known:
            tz = None
            if self.provider == "pytz":
                import pytz
                try:
                    tz = pytz.timezone(clean)
                except pytz.UnknownTimeZoneError:
                    tz = None
            else:
                import zoneinfo
                try:
                    tz = zoneinfo.ZoneInfo(clean)
                except (zoneinfo.ZoneInfoNotFoundError, ValueError, OSError):
                    tz = None
            if tz is None and clean in WINDOWS_NAMES:
                Zones._known[k] = None
                tz = self._provider_zone(WINDOWS_NAMES[clean])
            Zones._known[k] = tz
        return Zones._known[k]

    def offset(self, key, naive):
        """utcoffset for a wall time in zone ``key``; None when the id is not (yet) known: such a value is floating"""
        clean = key.strip("/")          # ids "can be a bit unclean, starting with a / for example": the library looks up the cleaned id
        tz = self._provider_zone(clean)
        if tz is not None:
            return tz.localize(naive).utcoffset() if hasattr(tz, "localize") else naive.replace(tzinfo=tz).utcoffset()
        return self.custom.get(clean, (None, None))[1]

    def key(self, tzid):
        """zone key the value reports: the provider's canonical key (pytz resolves ids case-insensitively), or the
        TZID text of the defining VTIMEZONE for custom zones"""
        clean = tzid.strip("/")
        tz = self._provider_zone(clean)
        if tz is not None:
            return getattr(tz, "zone", None) or getattr(tz, "key", None) or clean
        c = self.custom.get(clean)
        return c[0] if c else tzid


def dt_obs(text, tzid, zones):
    k = R4.classify(text)
    if k == "DATE":
        d = R4.eval_date(text)
        return ("date", ("date", d.year, d.month, d.day))
    if k == "DATE-TIME":
        v = R4.eval_datetime(text)
        f = (v.year, v.month, v.day, v.hour, v.minute, v.second)
        if tzid is not None:
            # the library gives TZID precedence over a trailing Z; G3 never writes both
            off = zones.offset(tzid, v.replace(tzinfo=None))
            if off is None:
                # unknown TZID: the value is read as if the parameter were absent (UTC with Z, else floating)
                return ("datetime", ("datetime",) + f + (("UTC", 0) if text.endswith("Z") else (None, None)))
            return ("datetime", ("datetime",) + f + (zones.key(tzid), off if isinstance(off, str) else int(off.total_seconds())))
        if text.endswith("Z"):
            return ("datetime", ("datetime",) + f + ("UTC", 0))
        return ("datetime", ("datetime",) + f + (None, None))
    if k == "DURATION":
        td = R4.eval_duration(text)
        return ("timedelta", ("timedelta", td.days * 86400 + td.seconds))
    if k == "TIME":
        t = R4.eval_time(text)
        return ("time", ("time", t.hour, t.minute, t.second, 0 if text.endswith("Z") else None))
    if k == "PERIOD":
        a, b = text.split("/")
        s = dt_obs(a, tzid, zones)[1]
        e = dt_obs(b, tzid, zones)[1]
        return ("period", (s, e, b.startswith("P")))
    raise RefReject(f"not a date/time/duration/period: {text!r}")


def recur_obs(text, zones):
    out = []
    for part in text.split(";"):
        if not part:
            continue
        k, v = part.split("=")
        k = k.upper()
        items = []
        for x in v.split(","):
            if k == "UNTIL":
                items.append(dt_obs(x, None, zones)[1])
            elif k in ("COUNT", "INTERVAL") or k in R4._RANGES:
                items.append(("int", int(x)))
            elif k == "BYMONTH":
                items.append(("month", int(x[:-1]), True) if x.endswith("L") else ("int", int(x)))
            else:
                items.append(("text", x.upper()))
        out.append((k, tuple(items)))
    return tuple(sorted(out))


def decode(name, params, value, zones, resources_as_list=True):
    """-> list of value observations (kind, canonical, params-obs) for one content line"""
    pobs = tuple(sorted(params.items()))
    kind = KIND.get(name, "text")
    if kind == "textlist":
        if not resources_as_list:
            kind = "text"
        else:
            items = R1.split_list(value)
            if len(items) == 1:
                return [("text", R1.decode(value), pobs)]          # one value: indistinguishable from a single TEXT
            return [("textlist", tuple(R1.decode(x) for x in items), pobs)]
    tzid = params.get("TZID") if name in TZID_NAMES else None
    if isinstance(tzid, tuple):
        tzid = None
    if kind == "text":
        return [("text", R1.decode(value), pobs)]
    if kind in ("uri", "caladdress"):
        return [(kind, value, pobs)]
    if kind == "int":
        if not R4.matches(R4.INTEGER, value):
            raise RefReject(f"{name}: not an integer {value!r}")
        return [("int", int(value), pobs)]
    if kind == "categories":
        return [("categories", tuple(R1.decode(x) for x in R1.split_list(value)), pobs)]
    if kind == "geo":
        if not R4.is_geo(value):
            raise RefReject(f"GEO {value!r}")
        a, b = value.split(";")
        return [("geo", (float(a), float(b)), pobs)]
    if kind == "utcoffset":
        if not R4.matches(R4.UTC_OFFSET, value):
            raise RefReject(f"utc-offset {value!r}")
        td = R4.eval_utc_offset(value)
        return [("utcoffset", ("timedelta", td.days * 86400 + td.seconds), pobs)]
    if kind == "ddd":
        k, o = dt_obs(value, tzid, zones)
        return [(k, o, pobs)]
    if kind == "datelist":
        return [("datelist", tuple(dt_obs(x, tzid, zones) for x in value.split(",")), pobs)]
    if kind == "freebusy":
        return [("period", dt_obs(x, tzid, zones)[1], pobs) for x in value.split(",")]
    if kind == "recur":
        return [("recur", recur_obs(value, zones), pobs)]
    raise AssertionError(kind)


def unfold_lines(text):
    import re
    return [l for l in re.sub(r"\r\n[ \t]", "", text).split("\r\n") if l]


def parse(text, provider="zoneinfo", splitter=split_r2, two_pass=True, _zones=None, resources_as_list=True):
    """-> list of top-level component observations; raises RefReject when a conforming reader must reject.

    two_pass=True is the RFC reading (a VTIMEZONE defines its TZID for the whole object, wherever it stands);
    two_pass=False registers zones as they are closed - the single-pass behaviour of the library (known finding
    vtimezone-after-use), used only by classifiers."""
    zones = _zones or Zones(provider)
    if two_pass and _zones is None:
        try:
            parse(text, provider, splitter, False, zones, resources_as_list)      # first pass: collect the zone definitions
        except RefReject:
            pass
    stack, done = [], []
    for line in unfold_lines(text):
        try:
            name, params, value = splitter(line)
        except R2.R2Error as e:
            if stack and stack[-1]["name"] in LENIENT:
                continue
            raise RefReject(f"unreadable line {line[:60]!r}: {e}")
        uname = name.upper()
        if uname == "BEGIN":
            # component names are tokens; the library writes them TEXT-escaped, so read them as TEXT (identity for tokens)
            # (the library does not TEXT-decode names on input; its placeholder mechanism un-escapes them instead, so the
            # defect reader must not decode a second time)
            cname = value if splitter is split_defect else R1.decode(value)
            stack.append({"name": cname.upper(), "props": {}, "subs": []})
        elif uname == "END":
            if not stack:
                raise RefReject("END without BEGIN")
            c = stack.pop()
            o = (c["name"], tuple(sorted((k, tuple(v)) for k, v in c["props"].items())), tuple(c["subs"]))
            if c["name"] == "VTIMEZONE":
                register_zone(o, zones)
            (stack[-1]["subs"] if stack else done).append(o)
        else:
            if not stack:
                raise RefReject("property outside a component")
            try:
                vals_ = decode(uname, params, value, zones, resources_as_list)
            except (RefReject, ValueError, KeyError) as e:
                if stack[-1]["name"] in LENIENT:
                    continue
                raise RefReject(str(e))
            stack[-1]["props"].setdefault(uname, []).extend(vals_)
    if stack:
        raise RefReject("unclosed component")
    return done


def register_zone(o, zones):
    """G3 only writes custom zones with one fixed-offset STANDARD observance (full VTIMEZONE semantics are C12's R5)."""
    props = dict(o[1])
    if "TZID" not in props or not o[2]:
        return
    tzid = props["TZID"][0][1]
    offs = set()
    for sub in o[2]:
        sp = dict(sub[1])
        if "TZOFFSETTO" in sp:
            offs.add(sp["TZOFFSETTO"][0][1][1])
    # one fixed offset: the expected utcoffset is known; anything else needs R5 (C12) and is reported as the marker "custom"
    zones.custom[tzid.strip("/")] = (tzid, timedelta(seconds=offs.pop()) if len(offs) == 1 else "custom")


def selftest():
    text = ("BEGIN:VCALENDAR\r\nVERSION:2.0\r\nBEGIN:VEVENT\r\nSUMMARY;LANGUAGE=en:a\\, b\\nc\r\nDTSTART;TZID=Europe/Berlin:20240701T1\r\n 20000\r\n"
            "RDATE;VALUE=DATE:20240101,20240102\r\nATTENDEE;CN=\"Doe, J\";ROLE=CHAIR:mailto:j@example.com\r\nRRULE:FREQ=WEEKLY;BYDAY=MO,-1SU;COUNT=3\r\n"
            "END:VEVENT\r\nEND:VCALENDAR\r\n")
    (cal,) = parse(text)
    assert cal[0] == "VCALENDAR" and cal[2][0][0] == "VEVENT"
    ev = dict(cal[2][0][1])
    assert ev["SUMMARY"] == (("text", "a, b\nc", (("LANGUAGE", "en"),)),)
    assert ev["DTSTART"][0][1] == ("datetime", 2024, 7, 1, 12, 0, 0, "Europe/Berlin", 7200)
    assert ev["RDATE"][0][1] == (("date", ("date", 2024, 1, 1)), ("date", ("date", 2024, 1, 2)))
    assert ev["ATTENDEE"][0][2] == (("CN", "Doe, J"), ("ROLE", "CHAIR"))
    assert ev["RRULE"][0][1] == (("BYDAY", (("text", "MO"), ("text", "-1SU"))), ("COUNT", (("int", 3),)), ("FREQ", (("text", "WEEKLY"),)))
    try:
        parse("BEGIN:VTODO\r\nDTSTART:garbage\r\nEND:VTODO\r\n")
    except RefReject:
        pass
    else:
        raise AssertionError("garbage accepted")
    assert parse("BEGIN:VEVENT\r\nDTSTART:garbage\r\nUID:1\r\nEND:VEVENT\r\n")[0][1] == (("UID", (("text", "1", ()),)),)
