"""R8: canonical, order-normalised observation of a component tree.

obs(component) = (NAME, sorted [(PROPNAME, (value-obs, ... in order))], (sub-obs, ... in order))
value-obs      = (kind, canonical value, params-obs)
It does not go through to_ical(): losses that re-serialise identically (a date-time that lost
its zone) are still seen, because the zone key and the utcoffset are part of the observation.
"""
from datetime import date, datetime, time, timedelta

from ..vals import obs as tobs


def canon_param(v):
    if isinstance(v, (list, tuple)):
        vs = tuple(str(x) for x in v)
        return vs[0] if len(vs) == 1 else vs          # S1: one-element list == scalar (same wire form)
    if hasattr(v, "to_ical") and not isinstance(v, str):
        t = v.to_ical()
        return t.decode("utf-8") if isinstance(t, bytes) else str(t)
    return str(v)


def params_obs(params):
    if not params:
        return ()
    return tuple(sorted((str(k).upper(), canon_param(v)) for k, v in params.items()))


def recur_obs(rec):
    out = []
    for k, vs in rec.items():
        if not isinstance(vs, (list, tuple)):
            vs = [vs]
        items = []
        for v in vs:
            if isinstance(v, (datetime, date, timedelta, time)):
                items.append(tobs(v))
            elif hasattr(v, "dt"):
                items.append(tobs(v.dt))
            elif isinstance(v, bool):
                items.append(("bool", v))
            elif isinstance(v, int):
                leap = getattr(v, "leap", False)
                items.append(("int", int(v)) if not leap else ("month", int(v), True))
            else:
                items.append(("text", str(getattr(v, "value", v)).upper()))
        out.append((str(k).upper(), tuple(items)))
    return tuple(sorted(out))


def value_obs(v):
    """kind + canonical value of a property value object (icalendar.prop.v*)"""
    import icalendar.prop as P
    params = params_obs(getattr(v, "params", None))
    if isinstance(v, P.vDDDLists):
        return ("datelist", tuple(value_obs(x)[:2] for x in v.dts), params)
    if isinstance(v, P.vPeriod):
        return ("period", (tobs(v.start), tobs(v.duration if v.by_duration else v.end), bool(v.by_duration)), params)
    if isinstance(v, P.vDDDTypes):
        dt = v.dt
        if isinstance(dt, tuple):
            return ("period", (tobs(dt[0]), tobs(dt[1]), isinstance(dt[1], timedelta)), params)
        return (tobs(dt)[0], tobs(dt), params)
    if isinstance(v, (P.vDatetime, P.vDate, P.vTime)):
        return (tobs(v.dt)[0], tobs(v.dt), params)
    if isinstance(v, P.vDuration):
        return ("timedelta", tobs(v.td), params)
    if isinstance(v, P.vUTCOffset):
        return ("utcoffset", tobs(v.td), params)
    if isinstance(v, P.vGeo):
        return ("geo", (float(v.latitude), float(v.longitude)), params)
    if isinstance(v, P.vRecur):
        return ("recur", recur_obs(v), params)
    if isinstance(v, P.vCategory):
        return ("categories", tuple(str(c) for c in v.cats), params)
    if isinstance(v, P.vBinary):
        return ("binary", str(v.obj), params)
    if isinstance(v, P.vBoolean):
        return ("bool", bool(v), params)
    if isinstance(v, P.vInt):
        return ("int", int(v), params)
    if isinstance(v, P.vFloat):
        return ("float", float(v), params)
    if isinstance(v, P.vCalAddress):
        return ("caladdress", str(v), params)
    if isinstance(v, P.vUri):
        return ("uri", str(v), params)
    if isinstance(v, P.vInline):
        return ("inline", str(v), params)
    if isinstance(v, str):
        return ("text", str(v), params)
    if isinstance(v, bytes):
        return ("bytes", v, params)
    return ("other:" + type(v).__name__, repr(v), params)


def obs(comp):
    props = []
    for name, v in comp.items():
        items = v if isinstance(v, list) else [v]
        props.append((str(name).upper(), tuple(value_obs(x) for x in items)))
    props.sort(key=lambda p: p[0])
    return (str(comp.name).upper() if comp.name is not None else None, tuple(props), tuple(obs(s) for s in comp.subcomponents))


def diff(a, b, path=""):
    """First difference between two observations, for reports."""
    if a == b:
        return None
    if not (isinstance(a, tuple) and isinstance(b, tuple) and len(a) == 3 and len(b) == 3 and isinstance(a[1], tuple) and isinstance(b[1], tuple)):
        return f"{path}: {a!r} != {b!r}"
    if a[0] != b[0]:
        return f"{path}: component name {a[0]!r} != {b[0]!r}"
    here = f"{path}/{a[0]}"
    da, db = dict(a[1]), dict(b[1])
    for k in sorted(set(da) | set(db)):
        if da.get(k) != db.get(k):
            return f"{here}.{k}: {da.get(k)!r} != {db.get(k)!r}"
    if len(a[2]) != len(b[2]):
        return f"{here}: {len(a[2])} subcomponents != {len(b[2])} ({[s[0] for s in a[2]]} vs {[s[0] for s in b[2]]})"
    for i, (x, y) in enumerate(zip(a[2], b[2])):
        d = diff(x, y, f"{here}[{i}]")
        if d:
            return d
    return f"{here}: differs"


def structure(o, path=()):
    """Multiset-ready projection: (component path, property name, parameter-name set) entries."""
    out = []
    path = path + (o[0],)
    for name, values in o[1]:
        for v in values:
            out.append((path, name, frozenset(k for k, _ in v[2])))
    for s in o[2]:
        out.extend(structure(s, path))
    return out


def map_values(o, fn, namefn=None):
    """Rebuild an observation with fn applied to every value-obs (kind, canonical, params) and namefn to component names."""
    return ((namefn(o[0]) if namefn and o[0] is not None else o[0]),
            tuple((n, tuple(fn(v) for v in vs)) for n, vs in o[1]),
            tuple(map_values(x, fn, namefn) for x in o[2]))


def norm_texts(o):
    """The documented TEXT normalisations (CRLF -> LF, literal backslash-N -> LF) applied to text values, category items
    and component names: two trees that differ only by them are the same tree (C07)."""
    from . import text as R1

    def fn(v):
        if v[0] == "text":
            return (v[0], R1.norm(v[1]), v[2])
        if v[0] == "categories":
            return (v[0], tuple(R1.norm(x) for x in v[1]), v[2])
        return v
    return map_values(o, fn, R1.norm)


def _walk_dt(c, fn):
    """apply fn to every ('datetime', y..S, tzkey, offset) tuple nested in a canonical value"""
    if isinstance(c, tuple):
        if len(c) == 9 and c[0] == "datetime":
            return fn(c)
        return tuple(_walk_dt(x, fn) for x in c)
    return c


def strip_zones(o):
    """erase zone key and offset of every non-UTC date-time (for classifiers: 'equal apart from zone resolution')"""
    def f(d):
        return d if d[7] in (None, "UTC") else d[:7] + (None, None)
    return map_values(o, lambda v: (v[0], _walk_dt(v[1], f), v[2]))


def mask_offsets(o, zone_ids):
    """replace the offset of date-times in the given (custom) zones by a marker"""
    ids = {z.strip("/") for z in zone_ids}

    def f(d):
        return d[:8] + ("custom",) if isinstance(d[7], str) and d[7].strip("/") in ids else d
    return map_values(o, lambda v: (v[0], _walk_dt(v[1], f), v[2]))


def custom_zone_ids(o, acc=None):
    acc = set() if acc is None else acc
    if o[0] == "VTIMEZONE":
        for n, vs in o[1]:
            if n == "TZID" and vs:
                acc.add(str(vs[0][1]))
    for s in o[2]:
        custom_zone_ids(s, acc)
    return acc
