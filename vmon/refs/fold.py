"""R3: RFC 5545 section 3.1 folding, written from the RFC text.

unfold = delete every CRLF that is immediately followed by one SP or HTAB.
"""
import re

_UNFOLD = re.compile(rb"\r\n[ \t]")
LIMIT = 75


def unfold(data: bytes) -> bytes:
    return _UNFOLD.sub(b"", data)


def problems_single(folded: bytes, logical: str, limit=LIMIT):
    """Problems of the folded form of ONE logical line (no trailing CRLF)."""
    out = []
    want = logical.encode("utf-8")
    phys = folded.split(b"\r\n")
    for i, p in enumerate(phys):
        if len(p) > limit:
            out.append(f"physical line {i} has {len(p)} octets")
        try:
            p.decode("utf-8")
        except UnicodeDecodeError as e:
            out.append(f"physical line {i} is not UTF-8 on its own: {e}")
        if i > 0 and not p.startswith(b" "):
            out.append(f"continuation {i} does not start with one SPACE: {p[:12]!r}")
    got = unfold(folded)
    if got != want:
        out.append(f"unfolding does not restore the line: got {_clip(got)} want {_clip(want)}")
    return out


def problems_stream(data: bytes, logical, limit=LIMIT):
    """Problems of a serialised sequence of logical lines (each CRLF terminated).

    ``logical``: list of str (no element starts with SP/HTAB), or None when
    only the octet/UTF-8/termination rules can be checked.
    """
    out = []
    if not data.endswith(b"\r\n"):
        out.append("output does not end with CRLF")
        body = data
    else:
        body = data[:-2]
    phys = body.split(b"\r\n")
    nlog = 0
    for i, p in enumerate(phys):
        if len(p) > limit:
            out.append(f"physical line {i} has {len(p)} octets")
        try:
            p.decode("utf-8")
        except UnicodeDecodeError as e:
            out.append(f"physical line {i} is not UTF-8 on its own: {e}")
        if p[:1] == b"\t":
            out.append(f"physical line {i} starts with HTAB")
        if p[:1] not in (b" ", b"\t"):
            nlog += 1
        if len(out) > 6:
            break
    if logical is not None:
        got = unfold(body).split(b"\r\n")
        want = [l.encode("utf-8") for l in logical]
        if got != want:
            for j, (g, w) in enumerate(zip(got, want)):
                if g != w:
                    out.append(f"logical line {j}: got {_clip(g)} want {_clip(w)}")
                    break
            else:
                out.append(f"{len(got)} logical lines after unfolding, {len(want)} expected")
    return out


def _clip(b, n=120):
    return repr(b if len(b) <= n else b[:60] + b"..." + b[-50:])


def selftest():
    assert unfold(b"ab\r\n cd\r\n\tef") == b"abcdef"
    assert unfold(b"ab\r\n  cd") == b"ab cd"
    assert problems_single(b"a" * 75 + b"\r\n b", "a" * 75 + "b") == []
    assert problems_single(b"a" * 76, "a" * 76)
    assert problems_single("é".encode()[:1] + b"\r\n " + "é".encode()[1:], "é")
    assert problems_stream(b"A:1\r\nB:2\r\n", ["A:1", "B:2"]) == []
    assert problems_stream(b"A:1\r\nB:2", ["A:1", "B:2"])
