"""R6: RFC 5545 3.8.6 / RFC 9074 alarm arithmetic and the acknowledged/snoozed decision table.

Written from the RFC text and the property statements; shares no code with icalendar.alarms.
"""
from datetime import date, datetime, timedelta


def is_date(x):
    return isinstance(x, date) and not isinstance(x, datetime)


def default_end(start, end_prop, duration):
    """End of a VEVENT/VTODO: DTEND/DUE, else DTSTART+DURATION, else the RFC default."""
    if end_prop is not None:
        return end_prop
    if start is None:
        return None
    if duration is not None:
        return start + duration
    if is_date(start):
        return start + timedelta(days=1)
    return start


def add(anchor, delta, normalize=None):
    """anchor + delta: a DATE anchor stays a date for whole-day deltas, else becomes midnight."""
    if is_date(anchor):
        if delta.seconds == 0 and delta.microseconds == 0:
            return anchor + delta
        anchor = datetime(anchor.year, anchor.month, anchor.day)
    r = anchor + delta
    return normalize(r) if normalize else r


def alarm_times(start, end, alarms, normalize=None):
    """alarms: list of dicts {trigger: timedelta|datetime|None, related: 'START'|'END', repeat:int, duration: timedelta|None}
    -> list of (alarm index, k, time) or raises LookupError('start'|'end') when the anchor is missing."""
    out = []
    for i, a in enumerate(alarms):
        trig = a["trigger"]
        if trig is None:
            continue
        if isinstance(trig, datetime):
            first = trig
        else:
            anchor = start if a.get("related", "START") != "END" else end
            if anchor is None:
                raise LookupError("start" if a.get("related", "START") != "END" else "end")
            first = add(anchor, trig, normalize)
        out.append((i, 0, first))
        rep, dur = a.get("repeat") or 0, a.get("duration")
        if rep > 0 and dur:
            for k in range(1, rep + 1):
                out.append((i, k, add(first, dur * k, normalize)))
    return out


def acknowledged(a1, a2):
    present = [a for a in (a1, a2) if a is not None]
    return max(present) if present else None


def effective_trigger(t, snooze):
    return snooze if (snooze is not None and snooze > t) else t


def is_active(t, a1, a2, snooze):
    """t must be an aware datetime when an acknowledgement has to be compared with it."""
    ack = acknowledged(a1, a2)
    if ack is None:
        return True
    if snooze is not None and snooze > ack:
        return True
    return effective_trigger(t, snooze) > ack


def selftest():
    from datetime import timezone
    u = timezone.utc
    T = datetime(2024, 1, 1, 12, tzinfo=u)
    h = timedelta(hours=1)
    assert is_active(T, None, None, None)
    assert not is_active(T, T, None, None) and not is_active(T, T + h, None, None) and is_active(T, T - h, None, None)
    assert not is_active(T, T - h, T, None)                  # later of both acks counts
    assert is_active(T, T + h, None, T + 2 * h)              # snoozed past the ack
    assert not is_active(T, T + 2 * h, None, T + h)
    assert effective_trigger(T, T + h) == T + h and effective_trigger(T, T - h) == T
    assert add(date(2024, 1, 2), timedelta(days=-1)) == date(2024, 1, 1)
    assert add(date(2024, 1, 2), timedelta(hours=-1)) == datetime(2024, 1, 1, 23)
    ts = alarm_times(datetime(2024, 1, 1, 10), None, [{"trigger": timedelta(minutes=-15), "repeat": 2, "duration": timedelta(minutes=5)},
                                                       {"trigger": None}, {"trigger": timedelta(0), "repeat": 3, "duration": None}])
    assert [(i, k, t.minute) for i, k, t in ts] == [(0, 0, 45), (0, 1, 50), (0, 2, 55), (2, 0, 0)]
    assert default_end(date(2024, 1, 1), None, None) == date(2024, 1, 2)
