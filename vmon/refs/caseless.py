"""R7: the caseless mapping model - a plain dict keyed by to_str(key).upper().

Declared defaults of the class under test are applied (pop(missing) -> None).
"""


class Missing(Exception):
    pass


def K(k):
    if isinstance(k, bytes):
        k = k.decode("utf-8")
    return k.upper()


class Model:
    def __init__(self, items=()):
        self.d = {}
        for k, v in items:
            self.d[K(k)] = v

    def apply(self, op):
        """-> ("ok", value) or ("raise", "KeyError")"""
        name = op[0]
        d = self.d
        try:
            if name == "set":
                d[K(op[1])] = op[2]
                return ("ok", None)
            if name == "get":
                return ("ok", d[K(op[1])])
            if name == "del":
                del d[K(op[1])]
                return ("ok", None)
            if name in ("in", "has_key"):
                return ("ok", K(op[1]) in d)
            if name == "getd":
                return ("ok", d.get(K(op[1]), op[2]))
            if name == "get1":
                return ("ok", d.get(K(op[1])))
            if name == "pop":
                return ("ok", d.pop(K(op[1]), None))     # declared default None
            if name == "popd":
                return ("ok", d.pop(K(op[1]), op[2]))
            if name == "popitem":
                return ("ok", d.popitem())
            if name == "setdefault":
                return ("ok", d.setdefault(K(op[1]), op[2]))
            if name in ("update_map", "update_pairs", "update_kw", "ior"):
                for k, v in op[1]:
                    d[K(k)] = v
                return ("ok", None)
            if name in ("or",):
                new = dict(d)
                for k, v in op[1]:
                    new[K(k)] = v
                return ("ok", list(new.items()))
            if name == "ror":
                new = {}
                for k, v in op[1]:
                    new[K(k)] = v
                for k, v in d.items():
                    new[k] = v
                return ("ok", list(new.items()))
            if name == "len":
                return ("ok", len(d))
            if name == "keys":
                return ("ok", list(d.keys()))
            if name == "values":
                return ("ok", list(d.values()))
            if name == "items":
                return ("ok", list(d.items()))
            if name == "copy":
                return ("ok", list(d.items()))
            if name == "clear":
                d.clear()
                return ("ok", None)
            raise ValueError(name)
        except KeyError:
            return ("raise", "KeyError")

    def sorted_keys(self, canonical_order):
        prio = [k for k in (canonical_order or ()) if k in self.d]
        rest = sorted(k for k in self.d if k not in (canonical_order or ()))
        return prio + rest


def selftest():
    m = Model([("a", 1), ("B", 2), ("A", 3)])
    assert list(m.d.items()) == [("A", 3), ("B", 2)]
    assert m.apply(("get", b"b")) == ("ok", 2)
    assert m.apply(("pop", "zz")) == ("ok", None)
    assert m.apply(("del", "zz")) == ("raise", "KeyError")
    assert m.apply(("set", "ß", 9)) == ("ok", None) and "SS" in m.d
    assert m.sorted_keys(("SS", "Q")) == ["SS", "A", "B"]
