"""R5: RFC 5545 section 3.6.5 VTIMEZONE onset interpreter, written from the RFC text.

A definition is a list of observances:
  {"kind": "STANDARD"|"DAYLIGHT", "dtstart": naive local datetime, "from": seconds, "to": seconds, "name": str|None,
   "rdates": [naive local datetimes], "rule": None | {"bymonth": m, "byday": (n, weekday 0=MO..6=SU), "until": aware UTC datetime|None, "count": int|None}}
The onset of an observance occurrence is its local DTSTART/recurrence minus TZOFFSETFROM; at every instant the
observance with the latest onset not after that instant is in effect: utcoffset = TZOFFSETTO, tzname = TZNAME,
dst = 0 for STANDARD.  Yearly nth-weekday rules are expanded with the calendar module, not dateutil.
"""
import bisect
import calendar
from datetime import datetime, timedelta, timezone

UTC = timezone.utc
HORIZON = 2038


def nth_weekday(year, month, n, wd):
    """date of the n-th (n>0) or n-th last (n<0) weekday wd (0=MO) of a month"""
    cal = calendar.monthcalendar(year, month)
    days = [week[wd] for week in cal if week[wd] != 0]
    return days[n - 1] if n > 0 else days[n]


def local_onsets(obs, until_as_local=False):
    """naive local onset datetimes (in terms of TZOFFSETFROM) of one observance, ascending"""
    out = [obs["dtstart"]]
    out.extend(obs.get("rdates") or [])
    rule = obs.get("rule")
    if rule:
        start = obs["dtstart"]
        occ = []
        year = start.year
        while year < HORIZON or (rule.get("count") and len(occ) < rule["count"] and year < 2200):
            try:
                day = nth_weekday(year, rule["bymonth"], rule["byday"][0], rule["byday"][1])
                cand = datetime(year, rule["bymonth"], day, start.hour, start.minute, start.second)
            except IndexError:
                cand = None
            year += 1
            if cand is None or cand < start:
                continue
            if rule.get("until") is not None:
                u = rule["until"]
                if until_as_local:
                    if cand > u.replace(tzinfo=None):
                        break
                else:
                    if (cand - timedelta(seconds=obs["from"])).replace(tzinfo=UTC) > u:
                        break
            occ.append(cand)
            if rule.get("count") and len(occ) >= rule["count"]:
                break
        out = sorted(set(out) | set(occ)) if start in occ else sorted(set(out) | set(occ))
    return sorted(set(out))


def timeline(definition, until_as_local=False):
    """sorted list of (onset_utc naive-as-UTC datetime, observance)"""
    tl = []
    for obs in definition:
        for lo in local_onsets(obs, until_as_local):
            tl.append((lo - timedelta(seconds=obs["from"]), obs))
    tl.sort(key=lambda x: x[0])
    return tl


def lookup(tl, p_utc):
    """observance in effect at naive-UTC instant p, or None before the first onset"""
    keys = [t for t, _ in tl]
    i = bisect.bisect_right(keys, p_utc) - 1
    return tl[i][1] if i >= 0 else None


def ambiguous_instants(tl):
    """instants at which two observances start together (the RFC leaves the winner open)"""
    seen, dup = set(), set()
    for t, _ in tl:
        if t in seen:
            dup.add(t)
        seen.add(t)
    return dup


def selftest():
    # America/New_York since 2007 (RFC 5545 example style)
    std = {"kind": "STANDARD", "dtstart": datetime(2007, 11, 4, 2), "from": -14400, "to": -18000, "name": "EST", "rdates": [],
           "rule": {"bymonth": 11, "byday": (1, 6), "until": None, "count": None}}
    dst = {"kind": "DAYLIGHT", "dtstart": datetime(2007, 3, 11, 2), "from": -18000, "to": -14400, "name": "EDT", "rdates": [],
           "rule": {"bymonth": 3, "byday": (2, 6), "until": None, "count": None}}
    tl = timeline([std, dst])
    assert lookup(tl, datetime(2024, 7, 1, 12))["name"] == "EDT"
    assert lookup(tl, datetime(2024, 1, 1, 12))["name"] == "EST"
    # 2024-03-10 02:00 EST = 07:00 UTC
    assert lookup(tl, datetime(2024, 3, 10, 6, 59, 59))["name"] == "EST" and lookup(tl, datetime(2024, 3, 10, 7, 0, 0))["name"] == "EDT"
    # 2024-11-03 02:00 EDT = 06:00 UTC
    assert lookup(tl, datetime(2024, 11, 3, 5, 59, 59))["name"] == "EDT" and lookup(tl, datetime(2024, 11, 3, 6, 0, 0))["name"] == "EST"
    assert lookup(tl, datetime(2007, 1, 1)) is None
    assert nth_weekday(2024, 3, -1, 6) == 31 and nth_weekday(2024, 10, -1, 6) == 27 and nth_weekday(2024, 2, 1, 3) == 1
    u = dict(std, rule={"bymonth": 11, "byday": (1, 6), "until": datetime(2009, 11, 1, 6, tzinfo=UTC), "count": None})
    assert [d.year for d in local_onsets(u)] == [2007, 2008, 2009]
    c = dict(std, rule={"bymonth": 11, "byday": (1, 6), "until": None, "count": 2})
    assert [d.year for d in local_onsets(c)] == [2007, 2008]
