"""R2: RFC 5545 section 3.1 content-line tokenizer ("any other conforming parser").

contentline = name *(";" param) ":" value
param       = param-name "=" param-value *("," param-value)
param-value = paramtext / quoted-string
No backslash and no percent handling at all: the RFC defines none here.
"""
import re

_NAME = re.compile(r"[A-Za-z0-9-]+")


class R2Error(ValueError):
    pass


def parse(line: str):
    """-> (name, [(param-name, [(value, quoted?), ...]), ...], value-text)"""
    m = _NAME.match(line)
    if not m:
        raise R2Error("no name")
    name = m.group(0)
    i = m.end()
    n = len(line)
    params = []
    while True:
        if i >= n:
            raise R2Error("no ':' found")
        ch = line[i]
        if ch == ":":
            return name, params, line[i + 1:]
        if ch != ";":
            raise R2Error(f"unexpected {ch!r} after name/param at {i}")
        i += 1
        m = _NAME.match(line, i)
        if not m or m.end() >= n or line[m.end()] != "=":
            raise R2Error(f"bad parameter name at {i}")
        pname = m.group(0)
        i = m.end() + 1
        values = []
        while True:
            if i < n and line[i] == '"':
                j = line.find('"', i + 1)
                if j < 0:
                    raise R2Error("unterminated quoted-string")
                values.append((line[i + 1:j], True))
                i = j + 1
            else:
                j = i
                while j < n and line[j] not in ',;:"':
                    j += 1
                values.append((line[i:j], False))
                i = j
            if i < n and line[i] == ",":
                i += 1
                continue
            break
        if i < n and line[i] == '"':
            raise R2Error(f"DQUOTE inside paramtext at {i}")
        params.append((pname, values))


def params_dict(params):
    """{UPPER name: value or [values]} with the one-element-list == scalar convention."""
    out = {}
    for k, vals in params:
        vs = [v for v, _ in vals]
        out[k.upper()] = vs[0] if len(vs) == 1 else vs
    return out


def selftest():
    assert parse('ATTENDEE;CN="Doe, J";ROLE=CHAIR,X:mailto:a@b') == (
        "ATTENDEE", [("CN", [("Doe, J", True)]), ("ROLE", [("CHAIR", False), ("X", False)])], "mailto:a@b")
    assert parse("SUMMARY:a:b;c") == ("SUMMARY", [], "a:b;c")
    assert parse("X;A=:v")[1] == [("A", [("", False)])]
    for bad in ("", ":x", "N;A:v", 'N;A="x:v', "Nv", 'N;A=a"b":v'):
        try:
            parse(bad)
        except R2Error:
            continue
        raise AssertionError(bad)
