"""R4: RFC 5545 section 3.3 value grammars (anchored regexes), written from the ABNF,
plus direct evaluators (text -> Python value) that share no code with icalendar."""
import re
from datetime import date, datetime, time, timedelta, timezone

DATE = re.compile(r"\d{4}(0[1-9]|1[0-2])(0[1-9]|[12]\d|3[01])\Z")
TIME = re.compile(r"([01]\d|2[0-3])[0-5]\d([0-5]\d|60)Z?\Z")
DATETIME = re.compile(r"\d{4}(0[1-9]|1[0-2])(0[1-9]|[12]\d|3[01])T([01]\d|2[0-3])[0-5]\d([0-5]\d|60)Z?\Z")
# dur-value = (["+"] / "-") "P" (dur-date / dur-time / dur-week)
DURATION = re.compile(r"[+-]?P(\d+W|\d+D(T(\d+H(\d+M(\d+S)?)?|\d+M(\d+S)?|\d+S))?|T(\d+H(\d+M(\d+S)?)?|\d+M(\d+S)?|\d+S))\Z")
UTC_OFFSET = re.compile(r"[+-]([01]\d|2[0-3])[0-5]\d([0-5]\d)?\Z")
INTEGER = re.compile(r"[+-]?\d+\Z")
FLOAT = re.compile(r"[+-]?\d+(\.\d+)?\Z")
BOOLEAN = re.compile(r"(TRUE|FALSE)\Z", re.I)
BINARY = re.compile(r"([A-Za-z0-9+/]{4})*([A-Za-z0-9+/]{2}==|[A-Za-z0-9+/]{3}=)?\Z")
WEEKDAYNUM = re.compile(r"([+-]?\d{1,2})?(SU|MO|TU|WE|TH|FR|SA)\Z")
FREQ = re.compile(r"(SECONDLY|MINUTELY|HOURLY|DAILY|WEEKLY|MONTHLY|YEARLY)\Z")
_DUR_PARTS = re.compile(r"([+-]?)P(?:(\d+)W)?(?:(\d+)D)?(?:T(?:(\d+)H)?(?:(\d+)M)?(?:(\d+)S)?)?\Z")


def matches(rx, text):
    return rx.match(text) is not None


def is_period(text):
    if text.count("/") != 1:
        return False
    a, b = text.split("/")
    return matches(DATETIME, a) and (matches(DATETIME, b) or (matches(DURATION, b) and not b.startswith("-")))


def is_geo(text):
    if text.count(";") != 1:
        return False
    a, b = text.split(";")
    return matches(FLOAT, a) and matches(FLOAT, b)


def eval_date(t):
    return date(int(t[0:4]), int(t[4:6]), int(t[6:8]))


def eval_time(t):
    v = time(int(t[0:2]), int(t[2:4]), int(t[4:6]))
    return v.replace(tzinfo=timezone.utc) if t.endswith("Z") else v


def eval_datetime(t):
    v = datetime(int(t[0:4]), int(t[4:6]), int(t[6:8]), int(t[9:11]), int(t[11:13]), int(t[13:15]))
    return v.replace(tzinfo=timezone.utc) if t.endswith("Z") else v


def eval_duration(t):
    m = _DUR_PARTS.match(t)
    sign, w, d, h, mi, s = m.groups()
    total = (int(w or 0) * 7 + int(d or 0)) * 86400 + int(h or 0) * 3600 + int(mi or 0) * 60 + int(s or 0)
    return timedelta(seconds=-total if sign == "-" else total)


def eval_utc_offset(t):
    secs = int(t[1:3]) * 3600 + int(t[3:5]) * 60 + int(t[5:7] or 0)
    return timedelta(seconds=-secs if t[0] == "-" else secs)


def classify(t):
    """Which of DATE / DATE-TIME / TIME / DURATION / PERIOD a text is (they cannot be confused)."""
    for name, ok in (("DATE-TIME", matches(DATETIME, t)), ("DATE", matches(DATE, t)), ("TIME", matches(TIME, t)),
                     ("DURATION", matches(DURATION, t)), ("PERIOD", is_period(t))):
        if ok:
            return name
    return None


def same_instant_and_awareness(a, b):
    """Python-semantics equality that also distinguishes aware from naive."""
    if (getattr(a, "tzinfo", None) is None) != (getattr(b, "tzinfo", None) is None):
        return False
    return a == b


def selftest():
    assert matches(DURATION, "P15DT5H0M20S") and matches(DURATION, "P7W") and matches(DURATION, "-PT10M")
    assert not matches(DURATION, "P") and not matches(DURATION, "PT") and not matches(DURATION, "P1DT") and not matches(DURATION, "P1W1D")
    assert not matches(DURATION, "PT1H5S")       # dur-hour may only be followed by dur-minute
    assert eval_duration("P15DT5H0M20S") == timedelta(days=15, hours=5, seconds=20)
    assert eval_duration("-P1W") == timedelta(days=-7)
    assert matches(UTC_OFFSET, "-0500") and matches(UTC_OFFSET, "+013045") and not matches(UTC_OFFSET, "0100")
    assert eval_utc_offset("-0500") == timedelta(hours=-5)
    assert matches(FLOAT, "-3.14") and not matches(FLOAT, "1e+16") and not matches(FLOAT, "1.")
    assert classify("19970714") == "DATE" and classify("19970714T133000Z") == "DATE-TIME" and classify("230000") == "TIME"
    assert classify("19970101T180000Z/PT5H30M") == "PERIOD" and classify("P1D") == "DURATION" and classify("x") is None
    assert eval_datetime("19980119T070000Z") == datetime(1998, 1, 19, 7, tzinfo=timezone.utc)
    assert matches(WEEKDAYNUM, "-1SU") and matches(WEEKDAYNUM, "MO") and not matches(WEEKDAYNUM, "1XX")
    assert matches(BINARY, "YWJj") and matches(BINARY, "YQ==") and not matches(BINARY, "YQ=")


# ---------------------------------------------------------------- RECUR (3.3.10 + RFC 7529)
_RANGES = {"BYSECOND": (0, 60, False), "BYMINUTE": (0, 59, False), "BYHOUR": (0, 23, False), "BYMONTHDAY": (1, 31, True),
           "BYYEARDAY": (1, 366, True), "BYWEEKNO": (1, 53, True), "BYSETPOS": (1, 366, True)}


def recur_problems(text):
    """Problems of a RECUR value text; [] when it matches the grammar with [RSCALE;]FREQ first."""
    out = []
    parts = text.split(";")
    names = []
    for p in parts:
        if p.count("=") != 1:
            return [f"part {p!r} is not name=value"]
        k, v = p.split("=")
        names.append(k)
        if k != k.upper():
            out.append(f"part name {k!r} not upper case")
        vals = v.split(",")
        if v == "":
            out.append(f"{k} has an empty value")
        elif k == "FREQ":
            if not matches(FREQ, v):
                out.append(f"FREQ={v}")
        elif k == "UNTIL":
            if not (matches(DATE, v) or matches(DATETIME, v)):
                out.append(f"UNTIL={v}")
        elif k in ("COUNT", "INTERVAL"):
            if not v.isdigit() or not v.isascii():
                out.append(f"{k}={v}")
        elif k in _RANGES:
            lo, hi, signed = _RANGES[k]
            for x in vals:
                m = re.match(r"([+-]?)(\d+)\Z", x)
                if not m or (m.group(1) and not signed) or not (lo <= int(m.group(2)) <= hi):
                    out.append(f"{k} item {x!r}")
        elif k in ("BYDAY",):
            for x in vals:
                m = WEEKDAYNUM.match(x)
                if not m or (m.group(1) and not (1 <= abs(int(m.group(1))) <= 53)):
                    out.append(f"BYDAY item {x!r}")
        elif k == "BYMONTH":
            for x in vals:
                if not re.match(r"\d{1,2}L?\Z", x) or not (1 <= int(x.rstrip("L")) <= 13):
                    out.append(f"BYMONTH item {x!r}")
        elif k == "WKST":
            if v not in ("SU", "MO", "TU", "WE", "TH", "FR", "SA"):
                out.append(f"WKST={v}")
        elif k == "SKIP":
            if v not in ("OMIT", "BACKWARD", "FORWARD"):
                out.append(f"SKIP={v}")
        elif k == "RSCALE":
            if not re.match(r"[A-Za-z0-9-]+\Z", v):
                out.append(f"RSCALE={v}")
        elif not k.startswith("X-"):
            out.append(f"unknown part {k}")
    if len(set(names)) != len(names):
        out.append("a part occurs twice")
    if "FREQ" not in names:
        out.append("FREQ missing")
    else:
        first = names[0] if names[0] != "RSCALE" else (names[1] if len(names) > 1 else None)
        if first != "FREQ":
            out.append(f"FREQ is not first (order {names})")
    if "COUNT" in names and "UNTIL" in names:
        out.append("COUNT and UNTIL together")
    return out
