"""R1: RFC 5545 section 3.3.11 TEXT codec, single left-to-right pass.

Written from the RFC text; shares no code with icalendar.
"""


def norm(s: str) -> str:
    """The documented input normalisations: literal backslash-N -> LF, CRLF -> LF."""
    return s.replace("\\N", "\n").replace("\r\n", "\n")


def encode(s: str) -> str:
    out = []
    for ch in norm(s):
        if ch == "\\":
            out.append("\\\\")
        elif ch == ";":
            out.append("\\;")
        elif ch == ",":
            out.append("\\,")
        elif ch == "\n":
            out.append("\\n")
        else:
            out.append(ch)
    return "".join(out)


def decode(t: str) -> str:
    """ESCAPED-CHAR = ("\\\\" / "\\;" / "\\," / "\\N" / "\\n"); anything else is literal."""
    out = []
    i, n = 0, len(t)
    while i < n:
        ch = t[i]
        if ch == "\\" and i + 1 < n:
            nx = t[i + 1]
            if nx in "\\;,":
                out.append(nx)
                i += 2
                continue
            if nx in "nN":
                out.append("\n")
                i += 2
                continue
        out.append(ch)
        i += 1
    return "".join(out)


def split_list(t: str):
    """Split an encoded comma-separated TEXT list on unescaped commas."""
    items, cur = [], []
    i, n = 0, len(t)
    while i < n:
        ch = t[i]
        if ch == "\\" and i + 1 < n:
            cur.append(t[i:i + 2])
            i += 2
            continue
        if ch == ",":
            items.append("".join(cur))
            cur = []
        else:
            cur.append(ch)
        i += 1
    items.append("".join(cur))
    return items


def unescaped_specials(t: str):
    """Positions of ';' or ',' not preceded by an odd number of backslashes, and raw LF."""
    bad = []
    run = 0
    for i, ch in enumerate(t):
        if ch == "\\":
            run += 1
            continue
        if ch in ";," and run % 2 == 0:
            bad.append((i, ch))
        if ch == "\n":
            bad.append((i, "LF"))
        run = 0
    return bad


def selftest():
    assert encode("a;b,c\\d\ne") == "a\\;b\\,c\\\\d\\ne"
    assert decode("a\\;b\\,c\\\\d\\ne\\Nf") == "a;b,c\\d\ne\nf"
    assert decode("\\\\n") == "\\n"          # escaped backslash, then letter n
    assert decode("\\x\\") == "\\x\\"
    assert norm("a\\Nb\r\nc") == "a\nb\nc"
    assert split_list("a\\,b,c\\\\,d") == ["a\\,b", "c\\\\", "d"]
    assert unescaped_specials("a\\;b;c\\\\,d") == [(4, ";"), (8, ",")]
    for s in ["", "\\", "\\\\n", ";,\\N", "a\r\nb", "\\n"]:
        assert decode(encode(s)) == norm(s), s
