"""Executable models of *known defects* of the pinned tree (used only by classifiers).

A classifier may attribute a failing case to a known finding only if the model
here predicts the observed wrong result exactly.
"""


def placeholder_roundtrip(text: str) -> str:
    """Contentline.parts(): backslash pairs are swapped for %XX placeholders before the
    line is split and swapped back to the *bare* character afterwards, so the type decoder
    never sees ``\\,`` ``\\:`` ``\\;`` ``\\\\`` - and literal %2C %3A %3B %5C turn into , : ; \\ ."""
    e = (text.replace("\\,", "%2C").replace("\\:", "%3A")
             .replace("\\;", "%3B").replace("\\\\", "%5C"))
    return (e.replace("%2C", ",").replace("%3A", ":")
             .replace("%3B", ";").replace("%5C", "\\"))


def placeholder_escape(text: str) -> str:
    return (text.replace("\\,", "%2C").replace("\\:", "%3A")
                .replace("\\;", "%3B").replace("\\\\", "%5C"))


def placeholder_unescape(text: str) -> str:
    return (text.replace("%2C", ",").replace("%3A", ":")
                .replace("%3B", ";").replace("%5C", "\\"))


# ---------------------------------------------------------------------------------------------
# Executable model of Contentline.parts() *as it behaves today*: the line is %XX-escaped, split
# leniently (first unquoted ';'/':' ends the name, first unquoted ':' starts the value, a line
# without ':' has an empty value), the parameter section is split quote-aware, every piece is
# %XX-unescaped.  Used only to decide whether an observed wrong split is the known placeholder
# finding: the prediction must equal the observation exactly.
import re as _re

_TOKEN = _re.compile(r"[\w.-]+\Z")
_UNSAFE = _re.compile('[\x00-\x08\x0a-\x1f\x7F",:;]')
_QUNSAFE = _re.compile('[\x00-\x08\x0a-\x1f\x7F"]')


def _q_split(st, sep, maxsplit=-1):
    if maxsplit == 0:
        return [st]
    result, cursor, inquote, splits = [], 0, False, 0
    for i, ch in enumerate(st):
        if ch == '"':
            inquote = not inquote
        if not inquote and ch == sep:
            result.append(st[cursor:i])
            cursor = i + 1
            splits += 1
        if i + 1 == len(st) or splits == maxsplit:
            result.append(st[cursor:])
            break
    return result


def lenient_parts(line, placeholders=True):
    """-> ("ok", name, {NAME: scalar-or-list}, value) | ("reject",)

    placeholders=False is the same lenient split with the %XX mechanism switched off (what the split would be
    without the defect); classifiers use it to confirm that the defect alone explains an observation."""
    if not placeholders:
        saved = globals()["placeholder_escape"], globals()["placeholder_unescape"]
        try:
            globals()["placeholder_escape"] = globals()["placeholder_unescape"] = lambda t: t
            return lenient_parts(line, True)
        finally:
            globals()["placeholder_escape"], globals()["placeholder_unescape"] = saved
    st = placeholder_escape(line)
    name_split = value_split = None
    in_quotes = False
    i = -1
    for i, ch in enumerate(st):
        if not in_quotes:
            if ch in ":;" and not name_split:
                name_split = i
            if ch == ":" and not value_split:
                value_split = i
        if ch == '"':
            in_quotes = not in_quotes
    name = placeholder_unescape(st[:name_split])
    if not name or not _TOKEN.match(name):
        return ("reject",)
    if not value_split:
        value_split = i + 1
    if not name_split or name_split + 1 == value_split:
        return ("reject",)
    params = {}
    for param in _q_split(st[name_split + 1:value_split], ";"):
        kv = _q_split(param, "=", 1)
        if len(kv) != 2:
            return ("reject",)
        key, val = kv
        if not _TOKEN.match(key):
            return ("reject",)
        vals = []
        for v in _q_split(val, ","):
            if v.startswith('"') and v.endswith('"'):
                v = v.strip('"')
                if _QUNSAFE.search(v):
                    return ("reject",)
            elif _UNSAFE.search(v):
                return ("reject",)
            vals.append(placeholder_unescape(v))
        if not vals:
            value = placeholder_unescape(val)
        else:
            value = vals[0] if len(vals) == 1 else vals
        params[placeholder_unescape(key).upper()] = value
    return ("ok", name, params, placeholder_unescape(st[value_split + 1:]))


def placeholder_involved(line):
    return placeholder_escape(line) != line or placeholder_unescape(line) != line


# ---------------------------------------------------------------------------------------------
# Executable model of how the zoneinfo provider interprets a VTIMEZONE: it hands the component to
# dateutil.tz.tzical, whose (a) component lookup works on *naive local* time, (b) UTC->local
# conversion is Python's generic tzinfo.fromutc algorithm (exact only while utcoffset-dst is
# constant), (c) UNTIL is read with ignoretz (a UTC UNTIL is compared with local onsets).
# Written from dateutil/tz/tz.py (_tzicalvtz) and _common.py (_tzinfo); used only to decide whether
# an observed wrong offset is that known mechanism: the prediction must equal the observation.
class TzicalTypeError(Exception):
    pass


def tzical_model(r5def, p_utc_naive):
    """-> (utcoffset seconds, tzname, dst seconds) dateutil's tzical reports for the UTC instant"""
    import bisect
    from datetime import timedelta
    from .refs import vtimezone as R5

    comps = []
    for o in r5def:
        comps.append({"from": o["from"], "to": o["to"], "diff": o["to"] - o["from"], "isdst": o["kind"] == "DAYLIGHT", "name": o["name"],
                      "onsets": R5.local_onsets(o, until_as_local=True)})

    def find(dt, fold):
        if len(comps) == 1:
            return comps[0]
        best, bestdt = None, None
        for c in comps:
            d = dt
            if c["diff"] < 0 and fold:
                d = d - timedelta(seconds=c["diff"])
            i = bisect.bisect_right(c["onsets"], d) - 1
            compdt = c["onsets"][i] if i >= 0 else None
            if compdt and (not bestdt or bestdt < compdt):
                best, bestdt = c, compdt
        if best is None:
            for c in comps:
                if not c["isdst"]:
                    return c
            # dateutil: ``lastcomp = comp[0]`` - a component is not subscriptable
            raise TzicalTypeError()
        return best

    def utcoffset(dt, fold):
        return timedelta(seconds=find(dt, fold)["to"])

    def dst(dt, fold):
        c = find(dt, fold)
        return timedelta(seconds=c["diff"]) if c["isdst"] else timedelta(0)

    dt = p_utc_naive
    delta = utcoffset(dt, 0) - dst(dt, 0)
    dt2 = dt + delta
    wall = dt2 + dst(dt2, 1)
    fold = 0
    if utcoffset(wall, 0) != utcoffset(wall, 1):
        fold = int((wall - p_utc_naive) == (utcoffset(p_utc_naive, 0) - dst(p_utc_naive, 0)))
    c = find(wall, fold)
    return (c["to"], c["name"], c["diff"] if c["isdst"] else 0)
