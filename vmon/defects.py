"""Executable models of *known defects* of the pinned tree (used only by classifiers).

A classifier may attribute a failing case to a known finding only if the model
here predicts the observed wrong result exactly.
"""


def placeholder_roundtrip(text: str) -> str:
    """Contentline.parts(): backslash pairs are swapped for %XX placeholders before the
    line is split and swapped back to the *bare* character afterwards, so the type decoder
    never sees ``\\,`` ``\\:`` ``\\;`` ``\\\\`` - and literal %2C %3A %3B %5C turn into , : ; \\ ."""
    e = (text.replace("\\,", "%2C").replace("\\:", "%3A")
             .replace("\\;", "%3B").replace("\\\\", "%5C"))
    return (e.replace("%2C", ",").replace("%3A", ":")
             .replace("%3B", ";").replace("%5C", "\\"))


def placeholder_escape(text: str) -> str:
    return (text.replace("\\,", "%2C").replace("\\:", "%3A")
                .replace("\\;", "%3B").replace("\\\\", "%5C"))


def placeholder_unescape(text: str) -> str:
    return (text.replace("%2C", ",").replace("%3A", ":")
                .replace("%3B", ";").replace("%5C", "\\"))
