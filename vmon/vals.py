"""Literal-evaluable descriptors for Python values used in cases (so every case can be replayed).

("d", y, m, d)                      date
("dt", y, m, d, H, M, S, tz)        datetime; tz: None | "UTC" | "zone:<key>" (active provider's tzinfo for key)
                                              | "zi:<key>" (zoneinfo) | "pytz:<key>" | "du:<key>" (dateutil.tz.gettz)
("td", seconds)                     timedelta
("t", H, M, S, utc?)                time
anything else                       itself
"""
from datetime import date, datetime, time, timedelta, timezone


def use_provider(name):
    import icalendar
    if name == "pytz":
        icalendar.use_pytz()
    else:
        icalendar.use_zoneinfo()


CUSTOM_ZONES = {}        # TZID -> tzinfo built from a VTIMEZONE component by the API builder (gen.model.build)


def tzinfo_for(tz):
    if tz is None:
        return None
    if tz.startswith("custom:"):
        return CUSTOM_ZONES[tz.split(":", 1)[1]]
    if tz == "UTC":
        from icalendar.timezone import tzp
        return tzp.localize_utc(datetime(2000, 1, 1)).tzinfo
    kind, key = tz.split(":", 1)
    if kind == "zone":
        from icalendar.timezone import tzp
        z = tzp.timezone(key)
        if z is None:
            raise ValueError(f"provider does not know {key}")
        return z
    if kind == "zi":
        import zoneinfo
        return zoneinfo.ZoneInfo(key)
    if kind == "pytz":
        import pytz
        return pytz.timezone(key)
    if kind == "du":
        import dateutil.tz
        return dateutil.tz.gettz(key)
    raise ValueError(tz)


def attach(naive, tzi):
    if tzi is None:
        return naive
    if hasattr(tzi, "localize"):
        return tzi.localize(naive)
    return naive.replace(tzinfo=tzi)


def py(v):
    if isinstance(v, tuple) and v:
        tag = v[0]
        if tag == "d":
            return date(v[1], v[2], v[3])
        if tag == "dt":
            return attach(datetime(*v[1:7]), tzinfo_for(v[7]))
        if tag == "td":
            return timedelta(seconds=v[1])
        if tag == "t":
            return time(v[1], v[2], v[3], tzinfo=timezone.utc if v[4] else None)
    return v


def tzkey(tzi):
    """zone id of a tzinfo as the providers expose it (zoneinfo .key, pytz .zone, dateutil ical _tzid)"""
    if tzi is None:
        return None
    for attr in ("key", "zone", "_tzid"):
        k = getattr(tzi, attr, None)
        if isinstance(k, str):
            return k
    return type(tzi).__name__


def obs(v):
    """Canonical observation of a Python temporal value: kind, fields, zone key, utcoffset."""
    if isinstance(v, datetime):
        try:
            off = v.utcoffset()
            off = None if off is None else int(off.total_seconds())
        except Exception as e:      # a lazily evaluated custom zone (dateutil tzical) can fail on use
            off = "utcoffset-raises:" + type(e).__name__
        return ("datetime", v.year, v.month, v.day, v.hour, v.minute, v.second, tzkey(v.tzinfo), off)
    if isinstance(v, date):
        return ("date", v.year, v.month, v.day)
    if isinstance(v, timedelta):
        return ("timedelta", v.days * 86400 + v.seconds)
    if isinstance(v, time):
        off = v.utcoffset()
        return ("time", v.hour, v.minute, v.second, None if off is None else int(off.total_seconds()))
    if isinstance(v, tuple):
        return ("tuple",) + tuple(obs(x) for x in v)
    return ("other", repr(v))
