"""setup_cmd: offline dependency bootstrap + self-tests of the reference models."""
import importlib
import os
import pkgutil
import subprocess
import sys

from . import paths, runner


def main():
    if not runner.ensure_deps():
        print("selftest: icontract could not be installed from the wheelhouse")
        return 1
    # reference models are pure Python and must agree with hand-computed RFC examples
    code = ("import importlib,pkgutil,vmon.refs as R\n"
            "n=0\n"
            "for mi in pkgutil.iter_modules(R.__path__):\n"
            "    m=importlib.import_module('vmon.refs.'+mi.name)\n"
            "    st=getattr(m,'selftest',None)\n"
            "    if st: st(); n+=1\n"
            "import icontract\n"
            "print('selftest: reference models ok:',n,'icontract',icontract.__version__)\n")
    r = subprocess.run([paths.PYTHON, "-c", code], env=runner.worker_env(), cwd=paths.HERE)
    return r.returncode


if __name__ == "__main__":
    sys.exit(main())
