"""Checkout-relative locations (nothing here may point into /tmp)."""
import os

HERE = os.path.dirname(os.path.dirname(os.path.abspath(__file__)))
REPO = os.environ.get("VERIF_REPO", "/repo")
REPO_SRC = os.path.join(REPO, "src")
DEPS = os.path.join(HERE, ".deps")
WORK = os.path.join(HERE, ".work")
EVIDENCE = os.environ.get("VERIF_EVIDENCE_DIR") or os.path.join(HERE, "evidence")  # dev tools redirect mutation runs
REPLAYS = os.path.join(HERE, "replays")
KNOWN = os.path.join(HERE, "known_findings.json")
WHEELS = "/opt/veriftools/wheels"
PYTHON = os.environ.get("VERIF_PYTHON", "/venv/bin/python")
GUARD = "ICALENDAR_VERIF"
