"""Child of C10: build the programs listed in a file under this process's PYTHONHASHSEED and print digests."""
import ast
import hashlib
import json
import sys


def digests(model):
    import icalendar
    from .gen.model import build
    icalendar.use_zoneinfo()
    out = []
    cal = build(model)
    # a date list whose items are in several zones / of several kinds: whatever the library does with it, it must not depend on the hash seed
    from .vals import py
    target = cal.subcomponents[0] if cal.subcomponents else cal
    zs = ["Europe/Berlin", "America/New_York", "Asia/Tokyo", "Australia/Lord_Howe", "Africa/Cairo"]
    target.add("exdate", [py(("dt", 2024, 5, 6, 7, 8, 9, "zone:" + z)) for z in zs])
    target.add("rdate", [py(("d", 2024, 5, 6)), py(("dt", 2024, 5, 6, 7, 8, 9, "zone:Asia/Tokyo")), (py(("dt", 2024, 5, 6, 7, 8, 9, "zone:Europe/Berlin")), py(("td", 3600)))])
    out.append(hashlib.sha256(cal.to_ical()).hexdigest())
    out.append(hashlib.sha256(cal.to_ical(sorted=False)).hexdigest())
    cal2 = build(model)
    if hasattr(cal2, "add_missing_timezones"):
        used = cal2.get_used_tzids()             # a set-based helper before serialising
        cal2.add_missing_timezones()
        out.append(hashlib.sha256(cal2.to_ical()).hexdigest())
        out.append(len(used))
    return out


def main(path):
    with open(path) as f:
        models = [ast.literal_eval(l) for l in f if l.strip()]
    res = []
    for m in models:
        try:
            res.append(digests(m))
        except Exception as e:
            res.append(["error", f"{type(e).__name__}: {e}"[:200]])
    print(json.dumps({"hashseed": sys.flags.hash_randomization, "digests": res}))


if __name__ == "__main__":
    main(sys.argv[1])
