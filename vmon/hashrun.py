"""Child of C10: build the programs listed in a file under this process's PYTHONHASHSEED and print digests."""
import ast
import hashlib
import json
import sys


def digests(model):
    import icalendar
    from .gen.model import build
    icalendar.use_zoneinfo()
    out = []
    cal = build(model)
    # a date list whose items are in several zones / of several kinds: whatever the library does with it, it must not depend on the hash seed
    from .vals import py
    target = cal.subcomponents[0] if cal.subcomponents else cal
    zs = ["Europe/Berlin", "America/New_York", "Asia/Tokyo", "Australia/Lord_Howe", "Africa/Cairo"]
    target.add("exdate", [py(("dt", 2024, 5, 6, 7, 8, 9, "zone:" + z)) for z in zs])
    target.add("rdate", [py(("d", 2024, 5, 6)), py(("dt", 2024, 5, 6, 7, 8, 9, "zone:Asia/Tokyo")), (py(("dt", 2024, 5, 6, 7, 8, 9, "zone:Europe/Berlin")), py(("td", 3600)))])
    # tzinfo objects that carry no zone name: the library has to pick an id for them among all zones that behave alike - the same one in every process
    from datetime import datetime, timedelta, timezone
    from dateutil import tz as dutz
    for h in (3, -5, 0, 5.5, 14, -12, 1, -3.5):
        target.add("rdate", datetime(2024, 5, 6, 7, 8, 9, tzinfo=timezone(timedelta(hours=h))))
    target.add("x-verif-fixed", datetime(2024, 5, 6, 7, 8, 9, tzinfo=dutz.tzoffset(None, 7200)))
    target.add("x-verif-named-offset", datetime(2024, 1, 6, 7, 8, 9, tzinfo=dutz.tzoffset("X", -3 * 3600)))
    target.add("x-verif-dateutil", datetime(2024, 5, 6, 7, 8, 9, tzinfo=dutz.gettz("America/New_York")))
    target.add("x-verif-tzutc", datetime(2024, 5, 6, 7, 8, 9, tzinfo=dutz.tzutc()))
    out.append(hashlib.sha256(cal.to_ical()).hexdigest())
    out.append(hashlib.sha256(cal.to_ical(sorted=False)).hexdigest())
    cal2 = build(model)
    if hasattr(cal2, "add_missing_timezones"):
        used = cal2.get_used_tzids()             # a set-based helper before serialising
        cal2.add_missing_timezones()
        out.append(hashlib.sha256(cal2.to_ical()).hexdigest())
        out.append(len(used))
    return out


def main(path):
    with open(path) as f:
        models = [ast.literal_eval(l) for l in f if l.strip()]
    res = []
    for m in models:
        try:
            res.append(digests(m))
        except Exception as e:
            res.append(["error", f"{type(e).__name__}: {e}"[:200]])
    print(json.dumps({"hashseed": sys.flags.hash_randomization, "digests": res}))


if __name__ == "__main__":
    main(sys.argv[1])
