"""./check <Cxx> <quick|thorough> | ./check <Cxx> --replay <file> | ./check selftest"""
import os
import sys

from . import runner


def main(argv):
    if not argv:
        print(__doc__)
        return 2
    if argv[0] == "selftest":
        from . import selftest
        return selftest.main()
    if argv[0] == "--replay":
        return runner.run_replay(None, argv[1])
    prop = argv[0]
    if len(argv) >= 3 and argv[1] == "--replay":
        return runner.run_replay(prop, argv[2])
    tier = argv[1] if len(argv) > 1 else os.environ.get("VERIF_TIER", "quick")
    if tier not in ("quick", "thorough"):
        print(__doc__)
        return 2
    return runner.run_check(prop, tier)


if __name__ == "__main__":
    try:
        rc = main(sys.argv[1:])
    except BaseException as e:  # a crash of the machinery is never a property verdict
        import traceback
        traceback.print_exc()
        print(f"INCONCLUSIVE property={sys.argv[1] if len(sys.argv) > 1 else '?'} reason=checker crashed: {type(e).__name__}: {e}")
        rc = 2
    sys.exit(rc)
