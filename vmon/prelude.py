"""Process history every worker starts with: earlier, unrelated use of the library in the same process.

A user's process has usually done other things with the library before the calls a property speaks about.  None of
that may change what later calls do: value objects own their parameters, optional arguments of one call (an ``encoding=``)
are not remembered for the next, a component starts empty.  The prelude therefore uses the public API on throw-away objects
in ways that are harmless on a correct implementation and poison shared state on an incorrect one (class-level ``params``,
one module-level "empty" ``Parameters`` handed to every parsed property, an encoding stored on the class, class-level
``subcomponents``/``errors`` lists).  The poison is recognisable: parameter ``X-VERIF-LEAK``, component ``X-VERIF-LEAKED``,
Latin-1 output - any of it showing up in what the monitors of a check observe later is a refuting event there.

Returns the number of API calls made (reported as a monitor counter; zero means the prelude did not run)."""
from datetime import date, datetime, time, timedelta, timezone

LEAK = "X-VERIF-LEAK"


def run(LEAK=LEAK):
    import icalendar
    from icalendar import prop as P
    from icalendar.parser import Contentline, Contentlines, Parameters
    n = 0
    dt = datetime(2001, 2, 3, 4, 5, 6)
    utc = datetime(2001, 2, 3, 4, 5, 6, tzinfo=timezone.utc)
    samples = [
        ("vInt", (1,)), ("vFloat", (1.5,)), ("vBoolean", (True,)), ("vText", ("prior",)), ("vUri", ("http://prior.example/",)),
        ("vCalAddress", ("mailto:prior@example.com",)), ("vDate", (date(2001, 2, 3),)), ("vDatetime", (dt,)), ("vDatetime", (utc,)),
        ("vDDDTypes", (dt,)), ("vDDDTypes", (date(2001, 2, 3),)), ("vDDDTypes", (timedelta(hours=1),)), ("vDDDTypes", ((utc, timedelta(hours=1)),)),
        ("vDuration", (timedelta(minutes=5),)), ("vPeriod", ((utc, utc + timedelta(hours=1)),)), ("vPeriod", ((utc, timedelta(hours=1)),)),
        ("vDDDLists", ([dt, dt],)), ("vRecur", ({"FREQ": "DAILY", "COUNT": 2},)), ("vWeekday", ("MO",)), ("vFrequency", ("DAILY",)),
        ("vMonth", (1,)), ("vTime", (time(1, 2, 3),)), ("vUTCOffset", (timedelta(hours=1),)), ("vGeo", ((1.0, 2.0),)), ("vBinary", ("prior",)),
        ("vCategory", (["prior", "use"],)), ("vInline", ("prior",)),
    ]
    for name, args in samples:
        cls = getattr(P, name, None)
        if cls is None:
            continue
        for _ in range(2):
            try:
                o = cls(*args)
                params = getattr(o, "params", None)
                if params is not None:
                    params[LEAK] = "leaked"            # in place, on an object nobody else holds
                    params["TZID"] = "Verif/Leaked"
                    params["VALUE"] = "X-VERIF-LEAKED"
                o.to_ical()
                n += 1
            except Exception:
                pass
    # optional arguments of one call are not remembered by the next
    for name, arg in (("vText", "prior"), ("vCalAddress", "mailto:prior@example.com"), ("vUri", "http://prior.example/"), ("vWeekday", "MO"),
                      ("vFrequency", "DAILY"), ("vInline", "prior")):
        try:
            getattr(P, name)(arg, encoding="latin-1").to_ical()
            getattr(P, name)(arg.encode("latin-1"), encoding="latin-1")
            n += 1
        except Exception:
            pass
    # components: parameters given to add(), then edited in place; subcomponents and errors of one component
    for cls in (icalendar.Event, icalendar.Todo, icalendar.Journal, icalendar.FreeBusy, icalendar.Alarm, icalendar.Calendar, icalendar.Timezone,
                icalendar.TimezoneStandard, icalendar.TimezoneDaylight, icalendar.cal.Component):
        try:
            c = cls()
            for pname, value in (("summary", "prior"), ("priority", 5), ("sequence", 1), ("dtstart", date(2001, 2, 3)), ("dtend", dt), ("due", utc),
                                 ("duration", timedelta(hours=1)), ("x-prior", "x"), ("attendee", "mailto:prior@example.com"), ("geo", (1.0, 2.0)),
                                 ("rrule", {"FREQ": "DAILY"}), ("exdate", [dt]), ("categories", ["a", "b"]), ("tzoffsetto", timedelta(hours=1)),
                                 ("percent-complete", 5), ("repeat", 1), ("url", "http://prior.example/")):
                c.add(pname, value, parameters={LEAK: "leaked"})
                v = c[pname]
                for item in (v if isinstance(v, list) else [v]):
                    item.params[LEAK + "-2"] = "leaked"
            sub = icalendar.cal.Component()
            sub.name = "X-VERIF-LEAKED"
            c.add_component(sub)
            c.errors.append(("X-VERIF-LEAKED", "leaked"))
            c.to_ical()
            n += 1
        except Exception:
            pass
    # parsed properties without parameters own their (empty) parameter map too
    text = ("BEGIN:VCALENDAR\r\nVERSION:2.0\r\nPRODID:prior\r\nBEGIN:VEVENT\r\nUID:prior\r\nSUMMARY:prior\r\nPRIORITY:1\r\nSEQUENCE:2\r\nDTSTART:20010203T040506Z\r\n"
            "DTEND:20010203\r\nDURATION:PT1H\r\nRRULE:FREQ=DAILY\r\nEXDATE:20010203T040506Z\r\nCATEGORIES:a,b\r\nGEO:1;2\r\nATTENDEE:mailto:prior@example.com\r\n"
            "X-PRIOR:x\r\nURL:http://prior.example/\r\nBEGIN:VALARM\r\nTRIGGER:-PT5M\r\nREPEAT:1\r\nEND:VALARM\r\nEND:VEVENT\r\nEND:VCALENDAR\r\n")
    for data in (text, text.encode("utf-8")):
        try:
            cal = icalendar.Calendar.from_ical(data)
            for comp in cal.walk():
                for key in list(comp.keys()):
                    v = comp[key]
                    for item in (v if isinstance(v, list) else [v]):
                        p = getattr(item, "params", None)
                        if p is not None:
                            p[LEAK] = "leaked"
                comp.errors.append(("X-VERIF-LEAKED", "leaked"))
            cal.to_ical()
            n += 1
        except Exception:
            pass
    for line in ("SUMMARY:prior", "ATTENDEE:mailto:prior@example.com", "X-PRIOR:1"):
        try:
            name, params, value = Contentline(line).parts()
            params[LEAK] = "leaked"
            Contentline.from_parts(name, params, value).to_ical()
            Contentlines.from_ical(line + "\r\n")
            Parameters()[LEAK] = "leaked"
            n += 1
        except Exception:
            pass
    icalendar.use_zoneinfo()
    return n
