"""icontract postconditions installed on the real functions of /repo/src/icalendar.

Conditions *record* and return True (a raising contract would abort the
workload it observes); the harness drains the recorded violations after every
case.  Every evaluation is counted: a deciding contract with zero evaluations
makes the run inconclusive (``from icalendar.parser import x`` copies would
otherwise bypass a rebinding silently).
"""
import sys
from collections import Counter

EVALS = Counter()
VIOLATIONS = []      # (contract name, detail)


class ContractBroken(Exception):
    pass


def _rec(name, problems):
    EVALS[name] += 1
    if problems:
        VIOLATIONS.append((name, "; ".join(problems[:4])))
    return True


def drain():
    out = VIOLATIONS[:]
    del VIOLATIONS[:]
    return out


def rebind_function(modname, fname, wrapped):
    """Replace ``modname.fname`` and every ``from modname import fname`` copy."""
    mod = sys.modules[modname]
    orig = getattr(mod, fname)
    n = 0
    for name, m in list(sys.modules.items()):
        if not name.startswith("icalendar") or m is None:
            continue
        for attr, val in list(vars(m).items()):
            if val is orig:
                setattr(m, attr, wrapped)
                n += 1
    return n


# ---------------------------------------------------------------- C06 folding
def attach_fold():
    import icontract
    import icalendar.parser as P
    from .refs import fold as R3

    def foldline_post(line, result, limit=75, fold_sep="\r\n "):
        if limit != 75 or fold_sep != "\r\n ":
            return True
        return _rec("foldline", R3.problems_single(result.encode("utf-8", "surrogatepass"), line))

    def cl_to_ical_post(self, result):
        return _rec("Contentline.to_ical", R3.problems_single(result, str(self)))

    def cls_to_ical_post(self, result):
        logical = [str(l) for l in self if l]
        if any(l[:1] in (" ", "\t") for l in logical):
            logical = None
        return _rec("Contentlines.to_ical", R3.problems_stream(result, logical))

    def comp_to_ical_post(self, result):
        return _rec("Component.to_ical", R3.problems_stream(result, None))

    w = icontract.ensure(foldline_post, error=ContractBroken)(P.foldline)
    rebind_function("icalendar.parser", "foldline", w)
    P.Contentline.to_ical = icontract.ensure(cl_to_ical_post, error=ContractBroken)(P.Contentline.to_ical)
    P.Contentlines.to_ical = icontract.ensure(cls_to_ical_post, error=ContractBroken)(P.Contentlines.to_ical)
    import icalendar.cal as C
    C.Component.to_ical = icontract.ensure(comp_to_ical_post, error=ContractBroken)(C.Component.to_ical)


# ---------------------------------------------------------------- C07 TEXT escaping
def attach_text():
    import icontract
    import icalendar.parser as P
    import icalendar.prop as PR
    from .refs import text as R1

    def escape_post(text, result):
        if not isinstance(result, str):
            return True
        bad = R1.unescaped_specials(result)
        return _rec("escape_char", [f"unescaped {c} at {i} in {result[:80]!r}" for i, c in bad[:3]])

    def vtext_post(self, result):
        t = result.decode("utf-8", "replace")
        bad = R1.unescaped_specials(t)
        return _rec("vText.to_ical", [f"unescaped {c} at {i} in {t[:80]!r}" for i, c in bad[:3]])

    w = icontract.ensure(escape_post, error=ContractBroken)(P.escape_char)
    n = rebind_function("icalendar.parser", "escape_char", w)
    EVALS["rebinds:escape_char"] += n
    PR.vText.to_ical = icontract.ensure(vtext_post, error=ContractBroken)(PR.vText.to_ical)
