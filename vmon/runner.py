"""Parent side: shard fan-out, log merge, known-finding matching, verdict, evidence."""
import ast
import fcntl
import hashlib
import json
import os
import shutil
import subprocess
import sys
import time
from array import array

from . import paths
from .worker import load_module

EXIT_HELD, EXIT_VIOLATION, EXIT_INCONCLUSIVE = 0, 1, 2


def ensure_deps():
    """icontract next to the repository's interpreter, offline, from the wheelhouse."""
    marker = os.path.join(paths.DEPS, "icontract")
    if os.path.isdir(marker):
        return True
    os.makedirs(paths.HERE, exist_ok=True)
    lock = open(os.path.join(paths.HERE, ".deps.lock"), "w")
    fcntl.flock(lock, fcntl.LOCK_EX)
    try:
        if os.path.isdir(marker):
            return True
        r = subprocess.run(
            [paths.PYTHON, "-m", "pip", "install", "--quiet", "--no-index",
             "--find-links", paths.WHEELS, "--target", paths.DEPS, "icontract"],
            capture_output=True, text=True)
        if r.returncode != 0:
            sys.stderr.write(r.stdout + r.stderr)
            return False
        return os.path.isdir(marker)
    finally:
        fcntl.flock(lock, fcntl.LOCK_UN)
        lock.close()


def worker_env(extra=None):
    env = dict(os.environ)
    env["PYTHONPATH"] = os.pathsep.join([paths.REPO_SRC, paths.HERE, paths.DEPS])
    env.setdefault("PYTHONHASHSEED", "0")
    env["PYTHONHASHSEED"] = "0"
    env[paths.GUARD] = "1"
    env["PYTHONDONTWRITEBYTECODE"] = "1"
    env.pop("PYTHONSTARTUP", None)
    if extra:
        env.update(extra)
    return env


def load_known(prop):
    try:
        with open(paths.KNOWN) as f:
            data = json.load(f)
    except FileNotFoundError:
        return {}
    out = {}
    for e in data.get("findings", []):
        if e.get("property") == prop and e.get("status") == "known":
            out[e["key"]] = e
    return out


def run_check(prop, tier):
    t0 = time.monotonic()
    prop = prop.upper()
    seed = int(os.environ.get("VERIF_SEED", "0") or 0)
    module = load_module(prop)
    if not ensure_deps():
        print(f"INCONCLUSIVE property={prop} reason=icontract could not be installed from the wheelhouse")
        return EXIT_INCONCLUSIVE
    nshards = getattr(module, "SHARDS", {}).get(tier, 16)
    nshards = max(1, min(nshards, int(os.environ.get("VERIF_JOBS", "16"))))
    # one scratch directory per run: two runs of the same check must not clobber each other
    work = os.path.join(paths.WORK, prop, f"run-{os.getpid()}-{int(time.time())}")
    shutil.rmtree(work, ignore_errors=True)
    os.makedirs(work)
    hard = getattr(module, "HARD_S", {"quick": 600, "thorough": 7200})[tier]
    procs = []
    for k in range(nshards):
        out = os.path.join(work, f"shard-{k}.json")
        # nothing a property speaks about depends on the machine's own time zone: a quarter of the shards each run west and east of UTC
        extra = {"TZ": ("UTC", "America/New_York", "UTC", "Asia/Kolkata")[k % 4]}
        shard_env = getattr(module, "shard_env", None)
        if shard_env:
            extra.update(shard_env(tier, k, nshards) or {})
        log = open(os.path.join(work, f"shard-{k}.log"), "w")
        p = subprocess.Popen(
            [paths.PYTHON, "-m", "vmon.worker", prop, tier, str(seed), str(k), str(nshards), out],
            env=worker_env(extra), stdout=log, stderr=subprocess.STDOUT, cwd=paths.HERE)
        procs.append((k, p, out, log))
    results, problems = [], []
    deadline = time.monotonic() + hard + 30
    for k, p, out, log in procs:
        try:
            p.wait(timeout=max(1, deadline - time.monotonic()))
        except subprocess.TimeoutExpired:
            p.kill()
            p.wait()
            problems.append(f"shard {k} hit the wall-clock watchdog ({hard}s)")
        log.close()
        if os.path.exists(out):
            with open(out) as f:
                results.append(json.load(f))
        else:
            tail = open(log.name).read()[-600:].replace("\n", " | ")
            problems.append(f"shard {k} produced no result (exit {p.returncode}): {tail}")
    status = decide(prop, tier, seed, module, results, problems, work, time.monotonic() - t0)
    if status != EXIT_INCONCLUSIVE:
        shutil.rmtree(work, ignore_errors=True)     # shard logs are kept only when something went wrong with the run itself
    return status


def merge(results, work):
    m = {"evaluations": 0, "nontrivial_enum": 0, "counters": {}, "fails": [],
         "fail_counts": {}, "samples": {}, "exhaustive": {}, "shards": len(results)}
    hashes = set()
    for r in results:
        m["evaluations"] += r["evaluations"]
        m["nontrivial_enum"] += r["nontrivial_enum"]
        for k, v in r["counters"].items():
            m["counters"][k] = m["counters"].get(k, 0) + v
        m["fails"].extend(r["fails"])
        for k, v in r["fail_counts"]:
            m["fail_counts"][k] = m["fail_counts"].get(k, 0) + v
        for s, lst in r["samples"].items():
            m["samples"].setdefault(s, [])
            if len(m["samples"][s]) < 3:
                m["samples"][s].extend(lst[: 3 - len(m["samples"][s])])
        for k, v in r["exhaustive"].items():
            m["exhaustive"][k] = m["exhaustive"].get(k, True) and v
        hp = os.path.join(work, f"shard-{r['shard']}.json.hashes")
        if os.path.exists(hp):
            a = array("Q")
            with open(hp, "rb") as f:
                a.frombytes(f.read())
            hashes.update(a)
    m["distinct_nontrivial"] = m["nontrivial_enum"] + len(hashes)
    return m


def write_replay(prop, rec):
    d = os.path.join(paths.REPLAYS, prop)
    os.makedirs(d, exist_ok=True)
    h = hashlib.sha256((rec["kind"] + rec["case"]).encode()).hexdigest()[:16]
    path = os.path.join(d, f"{h}.json")
    with open(path, "w") as f:
        json.dump(rec, f, indent=1)
    return path


def decide(prop, tier, seed, module, results, problems, work, wall):
    m = merge(results, work)
    known = load_known(prop)
    known_seen, violations = {}, []
    for key, n in m["fail_counts"].items():
        if key is not None and key in known:
            known_seen[key] = n
    unexplained = sum(n for k, n in m["fail_counts"].items() if k is None or k not in known)
    printed = set()
    for rec in m["fails"]:
        k = rec.get("key")
        if k is not None and k in known:
            continue
        ident = (rec["kind"], k)
        # one replay per (kind, key) is enough on stdout; all are counted
        if ident in printed or len(violations) >= 40:
            continue
        printed.add(ident)
        path = write_replay(prop, rec)
        violations.append((path, rec))
    inconclusive = list(problems)
    if not results:
        inconclusive.append("no shard produced a result")
    concl = getattr(module, "inconclusive", None)
    if concl and results:
        inconclusive.extend(concl(m, tier) or [])
    if m["evaluations"] == 0:
        inconclusive.append("no case was executed")

    for key, n in sorted(known_seen.items()):
        print(f"KNOWN-FINDING: property={prop} {key}: {known[key]['what']} ({n} cases)")
    for path, rec in violations:
        print(f"VIOLATION property={prop} replay={path}")
        print(f"  kind={rec['kind']} key={rec.get('key')} case={rec['case'][:300]}")
        print(f"  observed={str(rec['observed'])[:300]}")
        print(f"  expected={str(rec['expected'])[:300]}")
    if violations:
        status = EXIT_VIOLATION
    elif inconclusive:
        status = EXIT_INCONCLUSIVE
        for r in inconclusive:
            print(f"INCONCLUSIVE property={prop} reason={r}")
    else:
        status = EXIT_HELD
    write_evidence(prop, tier, seed, module, m, known_seen, unexplained, inconclusive, wall, status)
    verdict = {0: "held on everything explored", 1: "VIOLATED", 2: "inconclusive"}[status]
    print(f"{prop} {tier} seed={seed}: {verdict}; {m['evaluations']} cases, "
          f"{m['distinct_nontrivial']} distinct non-trivial, {unexplained} unexplained failures, "
          f"{sum(known_seen.values())} known-finding cases, {wall:.1f}s")
    return status


def write_evidence(prop, tier, seed, module, m, known_seen, unexplained, inconclusive, wall, status):
    os.makedirs(paths.EVIDENCE, exist_ok=True)
    samples = []
    for s, lst in sorted(m["samples"].items()):
        for c in lst[:2]:
            samples.append({"stream": s, "case": c})
    cov = {
        "evaluations": m["evaluations"],
        "distinct_nontrivial": m["distinct_nontrivial"],
        "rule": getattr(module, "RULE", ""),
        "samples": samples or ["<none>"],
        "exhaustive": bool(m["exhaustive"]) and all(m["exhaustive"].values()),
        "exhaustive_streams": m["exhaustive"],
        "monitor_counters": dict(sorted(m["counters"].items())),
        "known_findings_seen": known_seen,
        "unexplained": unexplained,
        "shards": m["shards"],
        "verdict": {0: "held", 1: "violated", 2: "inconclusive"}[status],
        "inconclusive_reasons": inconclusive,
    }
    ev = {
        "property_id": prop, "tier": tier, "seed": seed, "level": "exploration",
        "coverage": cov,
        "assumptions": getattr(module, "ASSUMPTIONS", []),
        "wall_s": round(wall, 2),
        "violations": unexplained,
    }
    path = os.path.join(paths.EVIDENCE, f"{prop}.json")
    tmp = path + ".tmp"
    with open(tmp, "w") as f:
        json.dump(ev, f, indent=1, sort_keys=True)
    os.replace(tmp, path)


def run_replay(prop, path):
    """Re-execute one recorded case on the current tree, in a worker-like child."""
    with open(path) as f:
        rec = json.load(f)
    prop = (prop or rec["property"]).upper()
    if not ensure_deps():
        print("INCONCLUSIVE: deps")
        return EXIT_INCONCLUSIVE
    extra = {}
    module = load_module(prop)
    replay_env = getattr(module, "replay_env", None)
    if replay_env:
        extra = replay_env(ast.literal_eval(rec["case"])) or {}
    r = subprocess.run([paths.PYTHON, "-m", "vmon.replay", prop, path],
                       env=worker_env(extra), cwd=paths.HERE)
    return r.returncode
