"""sys.monitoring tools (CPython 3.12): a deterministic logical step clock and an exception-flow recorder.

StepClock: counts PY_START|PY_RESUME events of *all* Python frames (the time of a slow parse goes into dateutil
generators).  When the budget is exceeded the callback raises BudgetExceeded on every further event (a bare
``except:`` in the code under test would swallow a single raise) until the harness stops the clock.
"""
import sys


class BudgetExceeded(BaseException):
    pass


class StepClock:
    TOOL = 4

    def __init__(self):
        self.count = 0
        self.budget = None
        self.exceeded = False
        self.active = False

    def _event(self, code, offset):
        self.count += 1
        if self.budget is not None and self.count > self.budget:
            if code.co_filename == __file__:
                return          # never raise inside the clock's own stop()
            self.exceeded = True
            raise BudgetExceeded()

    def install(self):
        m = sys.monitoring
        m.use_tool_id(self.TOOL, "vmon-stepclock")
        m.register_callback(self.TOOL, m.events.PY_START, self._event)
        m.register_callback(self.TOOL, m.events.PY_RESUME, self._event)

    def start(self, budget):
        self.count = 0
        self.budget = budget
        self.exceeded = False
        m = sys.monitoring
        m.set_events(self.TOOL, m.events.PY_START | m.events.PY_RESUME)
        self.active = True

    def stop(self):
        m = sys.monitoring
        m.set_events(self.TOOL, 0)
        self.budget = None
        self.active = False
        return self.count


class RaiseRecorder:
    """Records (origin file:function, exception type) of every RAISE inside the library - evidence of which error paths were driven."""
    TOOL = 5

    def __init__(self, prefix):
        self.prefix = prefix
        self.sites = {}

    def _raise(self, code, offset, exc):
        fn = code.co_filename
        if fn.startswith(self.prefix):
            key = (fn[len(self.prefix):].lstrip("/"), code.co_name, type(exc).__name__)
            self.sites[key] = self.sites.get(key, 0) + 1

    def install(self):
        m = sys.monitoring
        m.use_tool_id(self.TOOL, "vmon-raises")
        m.register_callback(self.TOOL, m.events.RAISE, self._raise)
        m.set_events(self.TOOL, m.events.RAISE)
