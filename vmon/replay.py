"""Re-execute one recorded case (child process of ``./check Cxx --replay file``)."""
import ast
import json
import sys

from .ctx import Ctx
from .worker import load_module, repo_sanity


def main(argv):
    prop, path = argv
    with open(path) as f:
        rec = json.load(f)
    module = load_module(prop)
    repo_sanity()
    case = ast.literal_eval(rec["case"])
    if getattr(module, "PRELUDE", True):
        from . import prelude
        prelude.run()
    ctx = Ctx(module, "quick", 0, 0, 1, replay=True)
    print(f"replaying {prop} kind={rec['kind']} case={rec['case'][:500]}")
    setup = getattr(module, "replay_setup", None)
    if setup:
        setup(ctx)
    ok = ctx.check(case)
    if ok:
        print("REPLAY: the case passes on the current tree")
        return 0
    known = [f for f in ctx.fails if f.get("key")]
    print(f"REPLAY: {len(ctx.fails)} refuting event(s) reproduced ({len(known)} match a classifier key)")
    return 1


if __name__ == "__main__":
    sys.exit(main(sys.argv[1:]))
