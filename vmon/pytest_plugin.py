"""pytest plugin: run the repository's own suite with the C06/C07 postconditions attached (guard on).

Usage (from C06 thorough): pytest -p vmon.pytest_plugin ...  with VMON_CONTRACT_REPORT=<file>.
A contract that fires there is a witness the suite itself does not assert."""
import json
import os


def pytest_configure(config):
    if os.environ.get("ICALENDAR_VERIF") != "1":
        return
    from . import contracts
    contracts.attach_fold()
    contracts.attach_text()


def pytest_sessionfinish(session, exitstatus):
    path = os.environ.get("VMON_CONTRACT_REPORT")
    if not path or os.environ.get("ICALENDAR_VERIF") != "1":
        return
    from . import contracts
    with open(path, "w") as f:
        json.dump({"evals": dict(contracts.EVALS), "violations": contracts.VIOLATIONS[:200], "exitstatus": int(exitstatus)}, f)
