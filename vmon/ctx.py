"""Per-worker monitoring context: counts cases, records refuting events.

A property module drives its workload through ``ctx.check(case)`` where
``case`` is a literal-evaluable descriptor (tuples/str/bytes/int/None...), so
that every failing case can be written to a replay file and re-executed by
``./check Cxx --replay file`` on the current tree.
"""
import random
import time
import traceback
from array import array


class Budget(BaseException):
    """Raised by nothing in here; reserved for the C04 step clock."""


class CaseTimeout(BaseException):
    pass


class _CaseTimer:
    """Repeating SIGALRM (a bare ``except:`` in the code under test may swallow a single raise)."""

    def __init__(self, seconds):
        self.seconds = seconds

    def _fire(self, signum, frame):
        raise CaseTimeout()

    def __enter__(self):
        import signal
        self.old = signal.signal(signal.SIGALRM, self._fire)
        signal.setitimer(signal.ITIMER_REAL, self.seconds, 0.25)

    def __exit__(self, *exc):
        import signal
        signal.setitimer(signal.ITIMER_REAL, 0)
        signal.signal(signal.SIGALRM, self.old)
        return False


class Ctx:
    MAX_FAILS_PER_KEY = 25

    def __init__(self, module, tier, seed, shard, nshards, replay=False):
        self.module = module
        self.prop = module.ID
        self.tier = tier
        self.quick = tier == "quick"
        self.seed = seed
        self.shard = shard
        self.nshards = nshards
        self.replay = replay
        self.rng = random.Random(f"{seed}/{self.prop}/{shard}")
        self.t0 = time.monotonic()
        self.soft_s = None          # soft wall budget for random streams
        self.evaluations = 0
        self.nontrivial_enum = 0    # distinct by construction (enumerations)
        self.nontrivial_hashes = set()
        self.counters = {}          # reach / class / monitor counters
        self.fails = []             # full records (capped per key)
        self.fail_counts = {}       # key -> count  (key None = unexplained)
        self.samples = {}           # stream -> [repr(case)]
        self.sample_seen = {}
        self._case = None
        self._case_fails = 0
        self._case_nontrivial = False
        self.exhaustive = {}        # name -> bool, streams fully enumerated

    # ---- partitioning / budgets
    def mine(self, i):
        return i % self.nshards == self.shard

    def elapsed(self):
        return time.monotonic() - self.t0

    def time_left(self):
        if self.soft_s is None:
            return True
        return self.elapsed() < self.soft_s

    # ---- counters
    def count(self, name, n=1):
        self.counters[name] = self.counters.get(name, 0) + n

    reach = count

    # ---- case protocol
    def check(self, case, stream="main", enum=False):
        """Run module.check_case on one case.  ``enum``: the case comes from an
        enumeration without repeats (distinct by construction)."""
        self._case = case
        self._case_fails = 0
        self._case_nontrivial = False
        self.evaluations += 1
        limit = getattr(self.module, "CASE_TIMEOUT_S", None)
        try:
            if limit and not self.replay:
                with _CaseTimer(limit):
                    self.module.check_case(self, case)
            else:
                self.module.check_case(self, case)
        except (KeyboardInterrupt, SystemExit):
            raise
        except CaseTimeout:
            # wall clock is only ever used to abstain from a case, never for a verdict
            self.count("abstained:case-wall-clock-limit")
            self._case_fails = 0
        except BaseException as e:   # harness or library blew up where no oracle expected it
            self.fail("harness-exception", observed=f"{type(e).__name__}: {e}",
                      expected="no exception escaping the oracle",
                      detail=traceback.format_exc()[-1500:])
        if self._case_nontrivial:
            if enum:
                self.nontrivial_enum += 1
            else:
                try:
                    h = hash(case)
                except TypeError:
                    h = hash(repr(case))
                self.nontrivial_hashes.add(h & 0xFFFFFFFFFFFFFFFF)
        # reservoir sample (size 3) of cases per stream
        seen = self.sample_seen.get(stream, 0) + 1
        self.sample_seen[stream] = seen
        res = self.samples.setdefault(stream, [])
        if len(res) < 3:
            res.append(_short(case))
        elif self.rng.randrange(seen) < 3:
            res[self.rng.randrange(3)] = _short(case)
        ok = self._case_fails == 0
        self._case = None
        return ok

    def nontrivial(self, flag=True):
        if flag:
            self._case_nontrivial = True

    def fail(self, kind, observed=None, expected=None, detail=None, key=None):
        """Record a refuting event for the current case."""
        self._case_fails += 1
        rec = {
            "property": self.prop,
            "kind": kind,
            "case": repr(self._case),
            "observed": _short(observed, 2000),
            "expected": _short(expected, 2000),
        }
        if detail is not None:
            rec["detail"] = _short(detail, 3000)
        if key is None:
            classify = getattr(self.module, "classify", None)
            if classify is not None:
                try:
                    key = classify(self._case, kind, observed, expected)
                except Exception as e:  # a broken classifier explains nothing
                    rec["classifier_error"] = f"{type(e).__name__}: {e}"
                    key = None
        rec["key"] = key
        n = self.fail_counts.get(key, 0) + 1
        self.fail_counts[key] = n
        if n <= self.MAX_FAILS_PER_KEY:
            self.fails.append(rec)
        if self.replay:
            print(f"  FAIL kind={kind} key={key}\n    observed: {rec['observed']}\n    expected: {rec['expected']}")
            if detail:
                print("    detail: " + str(detail)[:1500])
        return rec

    # ---- result
    def result(self):
        return {
            "property": self.prop, "tier": self.tier, "seed": self.seed,
            "shard": self.shard, "nshards": self.nshards,
            "evaluations": self.evaluations,
            "nontrivial_enum": self.nontrivial_enum,
            "nontrivial_hashed": len(self.nontrivial_hashes),
            "counters": self.counters,
            "fails": self.fails,
            "fail_counts": [[k, v] for k, v in self.fail_counts.items()],
            "samples": self.samples,
            "exhaustive": self.exhaustive,
            "wall_s": round(self.elapsed(), 3),
        }

    def hashes_bytes(self):
        return array("Q", sorted(self.nontrivial_hashes)).tobytes()


def _short(x, n=400):
    if x is None:
        return None
    s = x if isinstance(x, str) else repr(x)
    if len(s) > n:
        s = s[:n] + f"...[{len(s)} chars]"
    return s
