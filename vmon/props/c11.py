"""C11 Zoned date-times keep wall time, zone id, offset; UTC properties keep instant."""
import bisect
from datetime import datetime, timedelta, timezone

from ..refs import contentline as R2, fold as R3

ID = "C11"
RULE = ("zone ids of the active provider (quick: 64 seeded ids + sentinels such as UTC aliases, Etc/GMT+-n, links, America/Argentina/*, Lord_Howe, Apia, Dublin; "
        "thorough: all ids) x wall times {seeded random 1900-2100; for every offset transition in 1900-2100 (from pytz's table, quick: a sample per zone) the "
        "UTC instants T-1h, T-1s, T, T+1s, T+1h converted to wall time, and one wall time inside every gap and every fold} x provider {zoneinfo, pytz} x "
        "tzinfo source {zoneinfo, pytz.localize, dateutil gettz (wall time only)} x shape {DTSTART, DTEND, DUE, RECURRENCE-ID, RDATE/EXDATE lists, RDATE "
        "period (explicit end / duration), FREEBUSY period}; plus DTSTAMP/CREATED/LAST-MODIFIED/ACKNOWLEDGED via add() and via the descriptors, with "
        "zoned inputs. Oracles: the emitted line (R2) shows the wall fields and TZID == zone key (UTC: Z and no TZID); the parsed value has the same wall "
        "fields, zone key and the utcoffset the active provider itself assigns to that wall time (fold=0 / is_dst=False); UTC properties are written as "
        "the same instant with Z; non-trivial = wall time within 1 h of a transition, or inside a gap/fold; distinct by case hash")
ASSUMPTIONS = ["the expected offset is an independent call to the active provider for that wall time with fold=0, never the source tzinfo's offset (S6)",
               "zoned inputs carry fold=0 (iCalendar cannot represent fold=1 in a zoned value); UTC properties are also given the fold=1 reading of every wall time inside a repeated hour", "dateutil sources are checked for wall time only (their zone identification is heuristic)"]
SOFT_S = {"quick": 14, "thorough": 420}
UTC = timezone.utc
SENTINELS = ["UTC", "Etc/UTC", "Zulu", "GMT", "Etc/GMT+12", "Etc/GMT-14", "US/Eastern", "America/Argentina/Buenos_Aires", "America/Argentina/ComodRivadavia", "Australia/Lord_Howe",
             "Pacific/Apia", "Europe/Dublin", "Africa/Casablanca", "Asia/Kolkata", "Asia/Kathmandu", "Pacific/Chatham", "America/St_Johns", "Antarctica/Troll", "Europe/Berlin",
             "America/New_York", "Africa/Monrovia", "Europe/Amsterdam", "America/Caracas", "Asia/Pyongyang", "Pacific/Kiritimati", "America/Indiana/Indianapolis"]
SHAPES = ["DTSTART", "DTEND", "DUE", "RECURRENCE-ID", "RDATE-list", "EXDATE-list", "RDATE-period-end", "RDATE-period-dur", "FREEBUSY-period", "UTCPROP"]


def zone_ids(prov):
    if prov == "pytz":
        import pytz
        ids = list(pytz.all_timezones)
    else:
        import zoneinfo
        ids = sorted(zoneinfo.available_timezones())
    return [z for z in ids if z not in ("localtime",) and not (prov == "pytz" and z == "Factory")]


def transitions(z):
    """UTC transition instants of zone z in 1900-2100 with the offsets around them, from pytz's table"""
    import pytz
    try:
        tz = pytz.timezone(z)
    except Exception:
        return []
    tt = getattr(tz, "_utc_transition_times", None)
    if not tt:
        return []
    info = tz._transition_info
    out = []
    for i in range(1, len(tt)):
        t = tt[i]
        if 1900 <= t.year < 2100:
            out.append((t, info[i - 1][0], info[i][0]))
    return out


def run(ctx):
    rng = ctx.rng
    i = 0
    for prov in ("zoneinfo", "pytz"):
        ids = zone_ids(prov)
        if ctx.quick:
            chosen = sorted(set(rng.sample(ids, 64)) | {z for z in SENTINELS if z in ids})
            # every shard samples its own 64 zones
        else:
            chosen = ids
        for z in chosen:
            if not ctx.quick and not ctx.mine(i):
                i += 1
                continue
            i += 1
            ctx.count("zones-visited:" + prov)
            tr = transitions(z)
            if ctx.quick and len(tr) > 12:
                tr = rng.sample(tr, 12)
            walls = []
            for t, off_before, off_after in tr:
                for d in (-3600, -1, 0, 1, 3600):
                    u = t + timedelta(seconds=d)
                    off = off_before if d < 0 else off_after
                    walls.append((u + off, True))
                lo, hi = sorted((t + off_before, t + off_after))
                if hi > lo:
                    mid = lo + (hi - lo) / 2
                    walls.append((mid.replace(microsecond=0), True))
                    ctx.count("gap-or-fold-walltimes")
            for _ in range(4 if ctx.quick else 12):
                walls.append((datetime(rng.randrange(1900, 2100), rng.randrange(1, 13), rng.randrange(1, 29), rng.randrange(24), rng.randrange(60), rng.randrange(60)), False))
            for w, near in walls:
                if not (1 <= w.year <= 9998):
                    continue
                src = rng.choice(("zoneinfo", "pytz", "pytz", "zoneinfo", "dateutil")) if prov == "zoneinfo" else rng.choice(("pytz", "zoneinfo", "dateutil", "pytz"))
                shape = rng.choice(SHAPES)
                ctx.check(("zoned", prov, src, z, (w.year, w.month, w.day, w.hour, w.minute, w.second), shape, near), "zones-x-walltimes")
    ctx.exhaustive["all zone ids of both providers x all transitions 1900-2100"] = not ctx.quick


def make_source(src, z, w):
    """aware datetime with wall fields w in zone z from the given tz library, or None if that library does not know z"""
    if src == "zoneinfo":
        import zoneinfo
        try:
            return w.replace(tzinfo=zoneinfo.ZoneInfo(z))
        except Exception:
            return None
    if src == "pytz":
        import pytz
        try:
            return pytz.timezone(z).localize(w)
        except Exception:
            return None
    import dateutil.tz
    tz = dateutil.tz.gettz(z)
    return w.replace(tzinfo=tz) if tz is not None else None


def provider_offset(prov, z, w):
    if prov == "pytz":
        import pytz
        return pytz.timezone(z).localize(w).utcoffset()
    import zoneinfo
    return w.replace(tzinfo=zoneinfo.ZoneInfo(z), fold=0).utcoffset()


def key_of(tzinfo):
    for a in ("key", "zone"):
        k = getattr(tzinfo, a, None)
        if isinstance(k, str):
            return k
    return None


def fmt(w):
    return f"{w.year:04}{w.month:02}{w.day:02}T{w.hour:02}{w.minute:02}{w.second:02}"


def lines_named(data, name):
    out = []
    for l in R3.unfold(data).decode("utf-8").split("\r\n"):
        if l.upper().startswith(name):
            n, params, value = R2.parse(l)
            if n.upper() == name:
                out.append(({k.upper(): [v for v, _ in vs] for k, vs in params}, value))
    return out


def check_case(ctx, case):
    import icalendar
    from icalendar import Alarm, Event, Todo, FreeBusy
    _, prov, src, z, wt, shape, near = case
    (icalendar.use_pytz if prov == "pytz" else icalendar.use_zoneinfo)()
    w = datetime(*wt)
    ctx.nontrivial(bool(near))
    dt = make_source(src, z, w)
    if dt is None:
        ctx.count("source-does-not-know-zone")
        return
    if (dt.year, dt.month, dt.day, dt.hour, dt.minute, dt.second) != wt:
        ctx.count("source-changed-wall-time")
        return
    is_utc = z == "UTC"
    if shape == "UTCPROP":
        return check_utc_props(ctx, prov, dt, w)
    from icalendar import Journal
    # (the kind of component does not matter for how a value is written: DTSTART/DTEND also on VFREEBUSY, DTSTART on VTODO/VJOURNAL)
    pick = (w.second + w.minute + w.day) % 4
    comp = (Todo() if shape == "DUE" else FreeBusy() if shape == "FREEBUSY-period" else
            (Event(), FreeBusy(), Event(), Todo())[pick] if shape == "DTSTART" else
            (Event(), FreeBusy())[pick % 2] if shape == "DTEND" else
            (Event(), Journal(), Todo(), Event())[pick] if shape in ("RECURRENCE-ID", "RDATE-list", "EXDATE-list") else Event())
    if (w.second + w.hour) % 5 == 0 and src != "dateutil" and shape != "UTCPROP":
        # a sub-second part is not written (DATE-TIME has none): it is cut off, the wall-clock fields stay
        dt = dt.replace(microsecond=700000)
    w2 = w + timedelta(hours=2)
    dt2 = make_source(src, z, w2) if w2.year < 9999 else None
    name = shape if shape in ("DTSTART", "DTEND", "DUE", "RECURRENCE-ID") else shape.split("-")[0]
    if shape == "RDATE-period-end" and dt2 is not None:
        # an explicit period needs start < end as instants, both for the source tzinfo and for the active provider's data
        try:
            ok = dt2 > dt and (w2 - provider_offset(prov, z, w2)) > (w - provider_offset(prov, z, w))
        except Exception:
            ok = False
        if not ok:
            ctx.count("period-not-valid-across-this-transition")
            return
    if shape in ("DTSTART", "DTEND", "DUE", "RECURRENCE-ID"):
        comp.add(name, dt)
        expect_walls = [w]
    elif shape in ("RDATE-list", "EXDATE-list"):
        if dt2 is None:
            return
        comp.add(name, [dt, dt2])
        expect_walls = [w, w2]
    elif shape == "RDATE-period-end":
        if dt2 is None:
            return
        comp.add("RDATE", [(dt, dt2)])
        expect_walls = [w, w2]
    elif shape == "RDATE-period-dur":
        comp.add("RDATE", [(dt, timedelta(minutes=90))])
        expect_walls = [w]
    else:
        comp.add("FREEBUSY", [(dt, timedelta(minutes=90))])
        expect_walls = [w]
    try:
        data = comp.to_ical()
    except Exception as e:
        ctx.fail("serialise-raises", observed=f"{type(e).__name__}: {e}"[:200], expected="bytes")
        return
    ls = lines_named(data, name)
    if len(ls) != 1:
        ctx.fail("emitted-line-count", observed=len(ls), expected=1)
        return
    params, value = ls[0]
    texts = [x for item in value.split(",") for x in item.split("/") if not x.startswith("P")]
    want_texts = [fmt(x) + ("Z" if is_utc else "") for x in expect_walls]
    has_z = any(t.endswith("Z") for t in texts)
    if src == "dateutil":
        # wall time only: the zone a dateutil tzinfo is identified as (possibly UTC) is heuristic
        texts = [t.rstrip("Z") for t in texts]
        want_texts = [t.rstrip("Z") for t in want_texts]
    if texts != want_texts:
        ctx.fail("emitted-wall-time", observed=(value, params), expected=want_texts)
        return
    if src != "dateutil":
        if is_utc:
            if "TZID" in params:
                ctx.fail("utc-with-tzid", observed=params, expected="Z and no TZID")
                return
        elif params.get("TZID") != [z]:
            ctx.fail("emitted-tzid", observed=params.get("TZID"), expected=z)
            return
    elif not is_utc and "TZID" not in params and not has_z:
        ctx.fail("emitted-tzid-missing", observed=params, expected="some TZID for a zoned value")
        return
    # ---- parse back
    try:
        back = type(comp).from_ical(data)
    except Exception as e:
        ctx.fail("reparse-raises", observed=f"{type(e).__name__}: {e}"[:200], expected="component")
        return
    if name not in back:
        ctx.fail("property-lost", observed=list(back.errors)[:2], expected=name)
        return
    v = back[name]
    got = []
    if hasattr(v, "dts"):
        for d in v.dts:
            got.extend(x for x in (d.dt if isinstance(d.dt, tuple) else (d.dt,)) if isinstance(x, datetime))
    else:
        d = v.dt if not isinstance(v, list) else v[0].dt
        got.extend(x for x in (d if isinstance(d, tuple) else (d,)) if isinstance(x, datetime))
    if len(got) != len(expect_walls):
        ctx.fail("parsed-value-count", observed=len(got), expected=len(expect_walls))
        return
    for g, ew in zip(got, expect_walls):
        if (g.year, g.month, g.day, g.hour, g.minute, g.second) != (ew.year, ew.month, ew.day, ew.hour, ew.minute, ew.second):
            ctx.fail("parsed-wall-time", observed=str(g), expected=str(ew))
            return
        if src == "dateutil":
            continue
        if g.tzinfo is None:
            ctx.fail("parsed-zone-lost", observed=str(g), expected=z)
            return
        if key_of(g.tzinfo) != z:
            ctx.fail("parsed-zone-key", observed=key_of(g.tzinfo), expected=z)
            return
        want_off = provider_offset(prov, z, ew)
        if g.utcoffset() != want_off:
            ctx.fail("parsed-utcoffset", observed=str(g.utcoffset()), expected=str(want_off))
            return
    ctx.count("zoned-roundtrips")
    ctx.count("source:" + src)


def check_utc_props(ctx, prov, dt, w):
    """UTC properties keep the *instant*: inside a repeated hour the second reading (fold=1) of a wall time is another instant than the first, and
    it is written right after the first one so that a conversion remembered per wall time (datetime equality and hash ignore fold) is seen"""
    if _check_utc_props(ctx, prov, dt) and dt.tzinfo is not None and not hasattr(dt.tzinfo, "localize"):
        try:
            late = dt.replace(fold=1)
            differs = late.utcoffset() != dt.utcoffset()
        except Exception:
            return
        if differs and _check_utc_props(ctx, prov, late):
            ctx.count("utc-property-second-reading-checks")


def _check_utc_props(ctx, prov, dt):
    from icalendar import Alarm, Event
    try:
        want = dt.astimezone(UTC)
    except Exception:
        return False
    want_text = fmt(want) + "Z"
    ev = Event()
    ev.add("dtstamp", dt)
    ev.add("created", dt)
    ev.add("last-modified", dt)
    ev2 = Event()
    ev2.DTSTAMP = dt
    ev2.LAST_MODIFIED = dt
    al = Alarm()
    al.ACKNOWLEDGED = dt
    al2 = Alarm()
    al2.add("acknowledged", dt)
    for comp, names in ((ev, ("DTSTAMP", "CREATED", "LAST-MODIFIED")), (ev2, ("DTSTAMP", "LAST-MODIFIED")), (al, ("ACKNOWLEDGED",)), (al2, ("ACKNOWLEDGED",))):
        data = comp.to_ical()
        for n in names:
            ls = lines_named(data, n)
            if len(ls) != 1 or ls[0][1] != want_text or "TZID" in ls[0][0]:
                ctx.fail("utc-property-instant", observed=(n, ls, "fold=%d" % dt.fold), expected=want_text)
                return False
        back = type(comp).from_ical(data)
        for n in names:
            g = back[n].dt
            if g.utcoffset() != timedelta(0) or g.replace(tzinfo=None) != want.replace(tzinfo=None):
                ctx.fail("utc-property-parsed", observed=(n, str(g)), expected=str(want))
                return False
    ctx.count("utc-property-checks")
    return True


def inconclusive(m, tier):
    c = m["counters"]
    out = [f"monitor counter {k} is zero" for k in ("zoned-roundtrips", "utc-property-checks", "utc-property-second-reading-checks", "gap-or-fold-walltimes", "source:pytz", "source:zoneinfo", "source:dateutil") if not c.get(k)]
    if tier == "thorough":
        import zoneinfo
        import pytz
        if c.get("zones-visited:zoneinfo", 0) < len(zoneinfo.available_timezones()) - 2:
            out.append("not every zoneinfo id was visited")
        if c.get("zones-visited:pytz", 0) < len(pytz.all_timezones) - 2:
            out.append("not every pytz id was visited")
    return out


TECHNIQUE = "round-trip monitor over zone ids x transition-derived wall times; emitted line read with R2; expected offset from an independent call to the active provider"
LEVEL_TEXT = ("For every visited zone the wall times around each offset transition (and inside each gap and fold) plus random ones are attached with a tzinfo from "
              "zoneinfo, pytz or dateutil, written in every property shape and parsed back under both providers: wall fields, TZID/Z on the wire, zone key and "
              "the provider's own utcoffset for that wall time must be preserved; UTC-only properties must carry the same instant with Z. Thorough visits all "
              "zone ids and all transitions 1900-2100; quick samples 64 zones per shard plus sentinels.")
LEVEL_NOTE = "trusts zoneinfo/tzdata and pytz for offsets (each provider is compared with itself only); pytz's transition table is only a source of interesting instants"
