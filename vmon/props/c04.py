"""C04 Parsing is total: a result or ValueError; VEVENT isolates bad property lines."""
import os
import random

from .. import paths
from ..gen import mutate
from ..gen.model import G, emit, emit_lines, fold
from ..refs import tree
from ..trace import BudgetExceeded, RaiseRecorder, StepClock

ID = "C04"
BUDGET = 10_000_000
MAXLEN = 8192
RULE = ("inputs <= 8 KiB, nesting depth <= 64, both providers, entry points Calendar/Component/Event.from_ical with multiple in {False, True}, input as bytes or (when UTF-8) as str: random bytes; "
        "iCalendar token soup; structured mutants (G5) of the fixtures, the fuzz corpus and generated calendars, biased to VTIMEZONE blocks, TZID parameters, "
        "mismatched BEGIN/END, duplicated singletons, truncation; a hostile TZID list (tz-database directory names, '.', '..', 300-character ids, ids at the file system's octet limits (<= 255 characters but > 255 octets, a 255-octet last segment, 2100 path segments), NUL, "
        "Windows names, posix/...); malformed VTIMEZONE definitions; property lines whose typed value is drawn from a grammar of numeric boundaries per RFC 5545 value type "
        "(DURATION sign x weeks/days/time parts around 999999999 days, DATE/DATE-TIME fields around year 0001/9999 and 24:60:60 with edge zones, PERIOD, UTC-OFFSET, INTEGER, FLOAT, RECUR parts). (a) only ValueError may leave from_ical, and nothing may leave to_ical()/walk() of what "
        "was returned; (b) bounded progress: <= 10^7 interpreter function-entry events (sys.monitoring PY_START|PY_RESUME, all frames) per case; (c) "
        "isolation: an unmistakably unparsable line inserted into a VEVENT of a well-formed generated calendar must leave the parse successful and the "
        "tree identical except for exactly one more errors entry in that event; inserted into a non-lenient component it must give ValueError; "
        "non-trivial = every case; distinct by input hash")
ASSUMPTIONS = ["'terminates' is decided as bounded progress in deterministic logical steps (10^7 events ~ the project's 25 s fuzz timeout with 3x margin either way)",
               "the 120 s wall-clock watchdog per shard only ever yields 'inconclusive'", "depth > 64 and inputs > 8 KiB are out of the quantified domain (S10)"]
SOFT_S = {"quick": 18, "thorough": 420}
HARD_S = {"quick": 900, "thorough": 7200}

HOSTILE_TZIDS = ["\u00e4" * 200, "\u20ac" * 100, "x" * 255, "x" * 256, "Europe/" + "\u00e4" * 130, "\U0001F600" * 64, "a/" * 2100, "Europe/" + "y" * 255, "\u00e4" * 127 + "x", "\u00e4" * 128,
                 # (file-name limits count octets, not characters: ids of at most 255 characters and more than 255 octets, the 4096-octet path limit)
                 "Europe", "America/Argentina", "America", ".", "..", "../../etc/passwd", "/etc/passwd", "x" * 300, "Europe/" + "y" * 250, "a\x00b", "", " ",
                 "W. Europe Standard Time", "Eastern Standard Time", "posix/Europe/Berlin", "right/UTC", "Etc", "tzdata.zi", "zone.tab", "Europe/Berlin/", "//", "/",
                 "Europe//Berlin", "europe/berlin", "UTC", "utc", "Z", "GMT+0", "Etc/GMT+14", "localtime", "Factory", "posixrules", "+VERSION", "Europe\\Berlin",
                 "Europe/Berlin\\", "%", "é", "\U0001F600", "CON", "nul", "America/Indiana", "Asia/Kolkata;X=1", "\"quoted\"", "a,b", "leapseconds", "iso3166.tab",
                 "__pycache__", "zones", "tzdata"]
BAD_LINES = ["NOCOLONHERE", ":novalue-name", ";X=1:v", "DTSTART:garbage", "DTSTART;TZID=Europe/Berlin:99999999T999999", "RRULE:FREQ=BOGUS", "RRULE:FREQ=DAILY;COUNT=x",
             "GEO:1", "GEO:a;b", "DTEND:2024", "DURATION:P", "DURATION:1H", "SEQUENCE:one", "PRIORITY:1.5", "EXDATE:20240101T000000,garbage", "RDATE;VALUE=PERIOD:x/y",
             "DTSTART;TZID=:", "ATTENDEE;CN=\"unterminated:mailto:a@b", "ATTENDEE;=x:mailto:a@b", "ATTENDEE;CN:mailto:a@b", "SUMMARY;BAD PARAM=1:x", "X-P;A=\x01:v",
             "DTSTAMP:20240101T250000Z", "DTSTART:20241301", "RECURRENCE-ID:nope", "CREATED:20240101T000000+0100", "DTSTART;VALUE=DATE:2024010", "-BADNAME:x", "A B:x",
             "DTEND:20240101T000000Z/20230101T000000Z", "LAST-MODIFIED:20050227T062726Z/20100914T050339"]


EXTREMES = ["DURATION:P99999999999D", "DURATION:-P99999999999999999W", "TRIGGER:-PT99999999999999999999S", "TRIGGER:P1000000000D", "SEQUENCE:" + "9" * 400, "PRIORITY:-" + "1" * 5000,
            "PERCENT-COMPLETE:1e5", "GEO:1e999;0", "GEO:nan;inf", "GEO:" + "9" * 400 + ";1", "TZOFFSETTO:+9999", "TZOFFSETFROM:-235960", "RRULE:FREQ=DAILY;COUNT=" + "9" * 30,
            "RRULE:FREQ=DAILY;INTERVAL=" + "9" * 30, "RRULE:FREQ=YEARLY;BYDAY=99SU", "RRULE:FREQ=YEARLY;BYMONTH=5L;BYMONTHDAY=" + "1" * 40, "RRULE:FREQ=DAILY;UNTIL=99999999T999999Z",
            "DTSTART:00000101T000000", "DTSTART:00010101T000000Z", "DTSTART:99991231T235959Z", "DTSTART;TZID=Europe/Berlin:00010101T000000", "DTSTART;TZID=America/New_York:99991231T235959",
            "DTSTART;TZID=Pacific/Kiritimati:00010101T000000", "DTEND;TZID=Pacific/Apia:99991231T235959", "RDATE;TZID=Europe/Berlin:00010101T000030,99991231T233000",
            "RDATE;VALUE=PERIOD:99991231T230000Z/PT2H", "RDATE;VALUE=PERIOD;TZID=America/New_York:00010101T000000/PT1H", "FREEBUSY:99991231T230000Z/P1D", "FREEBUSY:00010101T000000Z/-P1D",
            "EXDATE;TZID=Asia/Tokyo:00010101T000000", "DUE;TZID=Europe/London:99991231T235959", "RECURRENCE-ID;TZID=Australia/Lord_Howe:00010101T001500", "COMPLETED:99991231T235960Z",
            "DTSTART:20240230T000000", "DTSTART:20240101T240000", "DURATION:P1W1D", "DURATION:PT1H1S", "REPEAT:" + "8" * 100, "X-BIG:" + "z" * 6000,
            "FREEBUSY:19970308T160000Z/PT3H,garbage", "FREEBUSY:19970308T160000Z/PT3H,19970230T000000Z/PT1H", "FREEBUSY:19970308T160000Z/PT3H,", "EXDATE:20240101T000000,20240230T000000",
            "RDATE:20240101T000000,x", "CATEGORIES:a,b\\", "ATTENDEE;CN=a,\"b:mailto:x", "RRULE:FREQ=DAILY;BYDAY=MO,XX", "RRULE:FREQ=DAILY;UNTIL=20240101,20240102"]


BIG = ("0", "1", "7", "23", "24", "59", "60", "61", "86399", "86400", "142857142", "142857143", "999999998", "999999999", "1000000000", "2147483647", "2147483648",
       "9223372036854775807", "9223372036854775808", "99999999999999999999")
EDGE_ZONES = ("Pacific/Kiritimati", "Etc/GMT+12", "Pacific/Apia", "America/New_York", "Europe/Berlin", "Australia/Lord_Howe", "Asia/Kolkata", "UTC", "Africa/Monrovia")


def b_dur(rng):
    sign = rng.choice(("", "", "+", "-", "-"))
    if rng.randrange(5) == 0:
        return f"{sign}P{rng.choice(BIG)}W"
    out = f"{sign}P"
    if rng.randrange(4):
        out += rng.choice(BIG) + "D"
    t = ""
    for unit in "HMS":
        if rng.randrange(2):
            t += rng.choice(BIG) + unit
    if t or out.endswith("P"):
        out += "T" + (t or rng.choice(BIG) + "S")
    return out


def b_date(rng):
    return rng.choice(("0000", "0001", "0001", "9999", "9999", "1970", "2038", "1582", "1900")) + rng.choice(("00", "01", "01", "02", "12", "12", "13")) + \
        rng.choice(("00", "01", "01", "28", "29", "30", "31", "31", "32"))


def b_dt(rng):
    return b_date(rng) + "T" + rng.choice(("00", "00", "23", "23", "24", "12")) + rng.choice(("00", "00", "59", "59", "60")) + rng.choice(("00", "00", "59", "59", "60", "61")) + \
        rng.choice(("", "", "Z", "Z", "z", "+0100"))


def b_utcoff(rng):
    return rng.choice("+-") + rng.choice(("00", "00", "12", "14", "23", "24", "99")) + rng.choice(("00", "00", "30", "59", "60")) + rng.choice(("", "", "", "00", "01", "59", "60"))


def b_recur(rng):
    parts = ["FREQ=" + rng.choice(("SECONDLY", "MINUTELY", "HOURLY", "DAILY", "WEEKLY", "MONTHLY", "YEARLY", "YEARLY"))]
    for _ in range(rng.randrange(0, 4)):
        k = rng.randrange(8)
        if k == 0:
            parts.append("COUNT=" + rng.choice(BIG))
        elif k == 1:
            parts.append("INTERVAL=" + rng.choice(BIG))
        elif k == 2:
            parts.append("UNTIL=" + rng.choice((b_dt(rng), b_date(rng))))
        elif k == 3:
            parts.append("BYDAY=" + rng.choice(("", "-", "+")) + rng.choice(("", "0", "1", "53", "54", "99", "366")) + rng.choice(("MO", "SU", "XX", "")))
        elif k == 4:
            parts.append("BYMONTH=" + rng.choice(("0", "1", "12", "13", "5L", "L", "-1")))
        elif k == 5:
            parts.append(rng.choice(("BYMONTHDAY", "BYYEARDAY", "BYWEEKNO", "BYSETPOS", "BYHOUR", "BYMINUTE", "BYSECOND")) + "=" + rng.choice(("-", "", "")) + rng.choice(BIG[:12] + ("366", "367", "53", "54", "31", "32")))
        elif k == 6:
            parts.append("WKST=" + rng.choice(("MO", "SU", "XX", "")))
        else:
            parts.append("RSCALE=" + rng.choice(("GREGORIAN", "HEBREW", "")) + ";SKIP=" + rng.choice(("OMIT", "FORWARD", "x")))
    if rng.randrange(3) == 0:
        rng.shuffle(parts)
    return ";".join(parts)


def boundary_line(rng):
    """one property line whose typed value sits on a numeric boundary of its value type (RFC 5545 3.3)"""
    k = rng.randrange(9)
    tz = ";TZID=" + rng.choice(EDGE_ZONES) if rng.randrange(3) == 0 else ""
    if k == 0:
        return rng.choice(("DURATION", "TRIGGER", "TRIGGER;RELATED=END", "REFRESH-INTERVAL;VALUE=DURATION", "X-D;VALUE=DURATION")) + ":" + b_dur(rng)
    if k == 1:
        return rng.choice(("DTSTART", "DTEND", "DUE", "RECURRENCE-ID", "EXDATE", "RDATE", "TRIGGER;VALUE=DATE-TIME", "X-T;VALUE=DATE-TIME")) + tz + ":" + \
            ",".join(b_dt(rng) for _ in range(rng.choice((1, 1, 1, 2, 3))))
    if k == 2:
        return rng.choice(("DTSTAMP", "CREATED", "LAST-MODIFIED", "COMPLETED", "ACKNOWLEDGED")) + tz + ":" + b_dt(rng)
    if k == 3:
        return rng.choice(("DTSTART", "DTEND", "DUE", "EXDATE", "RDATE", "RECURRENCE-ID")) + rng.choice((";VALUE=DATE", ";VALUE=DATE", "", tz)) + ":" + b_date(rng)
    if k == 4:
        return rng.choice(("FREEBUSY", "FREEBUSY;FBTYPE=BUSY", "RDATE;VALUE=PERIOD", "RDATE;VALUE=PERIOD" + tz, "X-P;VALUE=PERIOD")) + ":" + \
            ",".join(b_dt(rng) + "/" + (b_dur(rng) if rng.randrange(2) else b_dt(rng)) for _ in range(rng.choice((1, 1, 2))))
    if k == 5:
        return rng.choice(("TZOFFSETFROM", "TZOFFSETTO", "X-O;VALUE=UTC-OFFSET")) + ":" + b_utcoff(rng)
    if k == 6:
        return rng.choice(("SEQUENCE", "PRIORITY", "REPEAT", "PERCENT-COMPLETE", "X-I;VALUE=INTEGER")) + ":" + rng.choice(("", "-", "+")) + rng.choice(BIG)
    if k == 7:
        f = lambda: rng.choice(("", "-", "+")) + rng.choice(("0", "90", "90.0000001", "180", "1e308", "1e309", "1E5", ".5", "5.", "nan", "inf", "0.000000000000000000000000001", rng.choice(BIG)))
        return rng.choice(("GEO:" + f() + ";" + f(), "GEO:" + f(), "X-F;VALUE=FLOAT:" + f()))
    return rng.choice(("RRULE", "EXRULE", "RRULE", "X-R;VALUE=RECUR")) + ":" + b_recur(rng)


def boundary_doc(rng):
    comp = rng.choice(("VEVENT", "VEVENT", "VTODO", "VJOURNAL", "VFREEBUSY", "VALARM", "STANDARD", "DAYLIGHT"))
    lines = [boundary_line(rng) for _ in range(rng.choice((1, 1, 2, 3)))]
    body = "".join(l + "\r\n" for l in lines)
    if comp in ("STANDARD", "DAYLIGHT"):
        base = ["DTSTART:19700101T000000", "TZOFFSETFROM:+0100", "TZOFFSETTO:+0100"]
        base = [b for b in base if rng.randrange(4)]
        wrap = "BEGIN:VTIMEZONE\r\nTZID:Verif/B\r\nBEGIN:" + comp + "\r\n" + "".join(b + "\r\n" for b in base) + body + "END:" + comp + "\r\nEND:VTIMEZONE\r\n" \
               "BEGIN:VEVENT\r\nDTSTART;TZID=Verif/B:20240101T120000\r\nEND:VEVENT\r\n"
    elif comp == "VALARM":
        wrap = "BEGIN:VEVENT\r\nDTSTART:20240101T120000Z\r\nBEGIN:VALARM\r\n" + body + "END:VALARM\r\nEND:VEVENT\r\n"
    else:
        wrap = f"BEGIN:{comp}\r\n{body}END:{comp}\r\n"
    return ("BEGIN:VCALENDAR\r\n" + wrap + "END:VCALENDAR\r\n").encode("utf-8")


def corpus():
    from .c01 import corpus as c
    return [d for n, d in c()]


def token_soup(rng):
    toks = mutate.TOKENS + [b"VEVENT", b"VTIMEZONE", b"STANDARD", b"TZID=Europe", b"FREQ=MINUTELY", b"FREQ=WEEKLY", b"UNTIL=", b"BYDAY=8SU", b"19700101T000000", b"TZOFFSETFROM:",
                            b"+0100\r\n", b"-9999", b"SUMMARY:", b"DTSTART;VALUE=DATE:", b"X-", b"\\\\", b"\xef\xbb\xbf"]
    return b"".join(rng.choice(toks) for _ in range(rng.randrange(1, 60)))[:MAXLEN]


def vtimezone_soup(rng):
    """malformed VTIMEZONE definitions around a referencing event"""
    lines = [b"BEGIN:VCALENDAR", b"BEGIN:VTIMEZONE", b"TZID:" + rng.choice((b"Custom/Zone", b"X", b"Europe/Berlin", b"/a/b"))]
    for _ in range(rng.randrange(0, 4)):
        kind = rng.choice((b"STANDARD", b"DAYLIGHT", b"X-OBS", b"VEVENT"))
        lines.append(b"BEGIN:" + kind)
        for _ in range(rng.randrange(0, 6)):
            lines.append(rng.choice((
                b"DTSTART:19701025T030000", b"DTSTART:19701025", b"DTSTART:19701025T030000Z", b"DTSTART;TZID=Europe/Berlin:19701025T030000", b"DTSTART:garbage",
                b"TZOFFSETFROM:+0200", b"TZOFFSETTO:+0100", b"TZOFFSETTO:+2359", b"TZOFFSETFROM:-000001", b"TZOFFSETTO:x", b"TZNAME:CET", b"TZNAME:CET", b"TZNAME;LANGUAGE=en:A\\,B",
                b"RRULE:FREQ=YEARLY;BYDAY=-1SU;BYMONTH=10", b"RRULE:FREQ=DAILY", b"RRULE:FREQ=HOURLY", b"RRULE:BYDAY=1SU", b"RRULE:FREQ=YEARLY;UNTIL=19800101T000000Z",
                b"RRULE:FREQ=YEARLY;BYDAY=8SU;BYMONTH=3", b"RRULE:FREQ=YEARLY;COUNT=0", b"RRULE:FREQ=YEARLY;INTERVAL=0", b"RDATE:19800101T000000", b"RDATE:19800101",
                b"RDATE;VALUE=PERIOD:19800101T000000/PT1H", b"EXDATE:19800101T000000", b"RRULE:FREQ=YEARLY", b"RRULE:FREQ=YEARLY", b"X-FOO:1", b"COMMENT:x")))
        lines.append(b"END:" + rng.choice((kind, kind, kind, b"STANDARD", b"VTIMEZONE")))
    lines.append(rng.choice((b"END:VTIMEZONE", b"END:VTIMEZONE", b"END:vtimezone", b"END:VEVENT")))
    lines += [b"BEGIN:" + rng.choice((b"VEVENT", b"VTODO")), b"DTSTART;TZID=" + rng.choice((b"Custom/Zone", b"X", b"/a/b")) + b":20240101T120000", b"END:" + rng.choice((b"VEVENT", b"VTODO")),
              b"END:VCALENDAR"]
    if rng.randrange(4) == 0:
        rng.shuffle(lines)
    return b"\r\n".join(lines) + b"\r\n"


def run(ctx):
    rng = ctx.rng
    files = corpus()
    i = 0
    for prov in ("zoneinfo", "pytz"):
        for tz in HOSTILE_TZIDS:
            for comp in ("VEVENT", "VTODO"):
                for prop in ("DTSTART", "RDATE", "X-WHATEVER"):
                    if ctx.mine(i):
                        data = (f"BEGIN:VCALENDAR\r\nBEGIN:{comp}\r\n{prop};TZID={tz}:20240101T120000\r\nEND:{comp}\r\nEND:VCALENDAR\r\n").encode("utf-8", "surrogatepass")
                        ctx.check(("parse", prov, "Calendar", 0, data), "hostile-tzids", enum=True)
                    i += 1
        for ln in EXTREMES:
            for comp in ("VEVENT", "VTODO", "VFREEBUSY", "VALARM", "STANDARD"):
                if ctx.mine(i):
                    wrap = ("BEGIN:VTIMEZONE\r\nTZID:Verif/X\r\nBEGIN:STANDARD\r\nDTSTART:19700101T000000\r\nTZOFFSETFROM:+0100\r\nTZOFFSETTO:+0100\r\n" + ln + "\r\nEND:STANDARD\r\nEND:VTIMEZONE\r\n"
                            if comp == "STANDARD" else f"BEGIN:{comp}\r\n{ln}\r\nEND:{comp}\r\n")
                    ctx.check(("parse", prov, "Calendar", 0, ("BEGIN:VCALENDAR\r\n" + wrap + "END:VCALENDAR\r\n").encode("utf-8")), "extreme-values", enum=True)
                i += 1
            for seed in range(2):
                if ctx.mine(i):
                    ctx.check(("isolate", prov, seed * 104729 + 7, ln, ("VEVENT", "VTODO")[seed]), "isolation-extremes", enum=True)
                i += 1
        for ln in BAD_LINES:
            for seed in range(6):
                if ctx.mine(i):
                    ctx.check(("isolate", prov, seed * 7919 + 13, ln, ("VEVENT", "VTODO", "VCALENDAR", "VALARM", "TOPLEVEL", "VEVENT")[seed]), "isolation", enum=True)
                i += 1
    # VTIMEZONE definitions with several identical observances (with and without TZNAME): a name has to be made up for each
    for prov in ("zoneinfo", "pytz"):
        for kind in ("STANDARD", "DAYLIGHT"):
            for k in (2, 3, 4, 6):
                for named in (0, 1):
                    if ctx.mine(i):
                        ob = (f"BEGIN:{kind}\r\nDTSTART:19701025T030000\r\nTZOFFSETFROM:+0200\r\nTZOFFSETTO:+0100\r\n" + ("TZNAME:X\r\n" if named else "") + f"END:{kind}\r\n")
                        doc = ("BEGIN:VCALENDAR\r\nBEGIN:VTIMEZONE\r\nTZID:Verif/Same\r\n" + ob * k + "END:VTIMEZONE\r\nBEGIN:VEVENT\r\nDTSTART;TZID=Verif/Same:20240101T120000\r\nEND:VEVENT\r\nEND:VCALENDAR\r\n")
                        ctx.check(("parse", prov, "Calendar", 0, doc.encode("utf-8")), "identical-observances", enum=True)
                    i += 1
    # the witness of the known step-budget finding (and its zoneinfo twin, which must stay within budget)
    witness = (b"BEGIN:VCALENDAR\r\nBEGIN:VTIMEZONE\r\nTZID:Verif/Minutely\r\nBEGIN:STANDARD\r\nDTSTART:19701025T030000\r\nTZOFFSETFROM:+0200\r\nTZOFFSETTO:+0100\r\n"
               b"RRULE:FREQ=MINUTELY\r\nEND:STANDARD\r\nEND:VTIMEZONE\r\nEND:VCALENDAR\r\n")
    for prov in ("pytz", "zoneinfo"):
        if ctx.mine(i):
            ctx.check(("parse", prov, "Calendar", 0, witness), "budget-witness", enum=True)
        i += 1
    ctx.exhaustive["hostile TZID list x component x property x provider; bad-line list x host component x provider"] = True
    n = 0
    while ctx.time_left():
        n += 1
        prov = "zoneinfo" if n % 2 else "pytz"
        entry = rng.choice(("Calendar", "Calendar", "Component", "Event"))
        multiple = rng.randrange(4)          # bit 0: multiple=True, bit 1: input handed over as str
        r = n % 12
        if r == 0:
            data = bytes(rng.randrange(256) for _ in range(rng.randrange(0, 200)))
        elif r == 1:
            data = token_soup(rng)
        elif r in (2, 3):
            data = vtimezone_soup(rng)
        elif r in (4, 5):
            data = mutate.mutate(rng, rng.choice(files), rounds=rng.randrange(1, 6))
        elif r == 6:
            g = G(rng, hostile=0.2)
            ctx.check(("isolate", prov, rng.randrange(10 ** 9), rng.choice(BAD_LINES), rng.choice(("VEVENT", "VEVENT", "VTODO", "VCALENDAR", "VALARM", "VFREEBUSY", "TOPLEVEL"))), "isolation-random")
            continue
        elif r == 10:
            data = boundary_doc(rng)
        elif r == 11:
            ctx.check(("isolate", prov, rng.randrange(10 ** 9), boundary_line(rng), rng.choice(("VEVENT", "VEVENT", "VTODO", "VALARM", "VFREEBUSY"))), "isolation-boundary")
            continue
        elif r == 7:
            depth = rng.randrange(1, 65)
            name = rng.choice((b"VEVENT", b"X-N", b"VCALENDAR", b"VTIMEZONE", b"VALARM"))
            inner = rng.choice((b"SUMMARY:x\r\n", b"TZID:Custom/Deep\r\n", b"DTSTART;TZID=Europe:20240101T000000\r\n", b""))
            data = (b"BEGIN:" + name + b"\r\n") * depth + inner + (b"END:" + name + b"\r\n") * rng.choice((depth, depth, depth - 1, depth + 1))
        else:
            g = G(rng, hostile=0.2)
            data = mutate.mutate(rng, emit(g.calendar()).encode("utf-8"), rounds=rng.randrange(1, 5))
        ctx.check(("parse", prov, entry, multiple, data[:MAXLEN]), ("random-bytes", "token-soup", "vtimezone-soup", "vtimezone-soup", "fixture-mutants", "fixture-mutants",
                                                                    "", "nesting", "G3-mutants", "G3-mutants", "boundary-values", "")[r])
    if CLOCK is not None:
        ctx.count("max-steps-seen", 0)
    for (fn, func, exc), cnt in sorted(RECORDER.sites.items()) if RECORDER else []:
        ctx.count(f"raise-site:{fn}:{func}:{exc}", cnt)


CLOCK = None
RECORDER = None


def monitors():
    global CLOCK, RECORDER
    if CLOCK is None:
        CLOCK = StepClock()
        CLOCK.install()
        RECORDER = RaiseRecorder(os.path.join(paths.REPO_SRC, "icalendar"))
        RECORDER.install()
    return CLOCK


def entry_point(name):
    import icalendar
    return {"Calendar": icalendar.Calendar, "Component": icalendar.cal.Component, "Event": icalendar.Event}[name]


CPU_BUDGET_S = 120


class CpuBudgetExceeded(BaseException):
    pass


def _cpu_fire(signum, frame):
    raise CpuBudgetExceeded()


def guarded(clock, fn):
    """-> ("value", v) | ("ValueError", msg) | ("escape", type, msg) | ("budget", steps)

    Two clocks: the deterministic step clock (function-entry events, budget 10^7) and - because a loop that calls no Python
    function produces no such event - the CPU time consumed by this process (ITIMER_PROF, 120 s ~ ten times what 10^7 events
    cost on this machine).  CPU time, unlike wall-clock time, does not grow with the load of the machine."""
    import signal
    old = signal.signal(signal.SIGPROF, _cpu_fire)
    signal.setitimer(signal.ITIMER_PROF, CPU_BUDGET_S, 1.0)
    clock.start(BUDGET)
    try:
        v = fn()
        return ("value", v)
    except BudgetExceeded:
        return ("budget", clock.count)
    except CpuBudgetExceeded:
        return ("budget", f"{CPU_BUDGET_S} s CPU")
    except ValueError as e:
        if clock.exceeded:
            return ("budget", clock.count)
        return ("ValueError", str(e)[:200])
    except BaseException as e:
        if clock.exceeded:
            return ("budget", clock.count)
        return ("escape", type(e).__name__, str(e)[:300])
    finally:
        clock.stop()                                # first: signal.signal() is a Python function and would trip an exceeded clock
        signal.setitimer(signal.ITIMER_PROF, 0)
        signal.signal(signal.SIGPROF, old)


def check_case(ctx, case):
    import icalendar
    clock = monitors()
    ctx.nontrivial(True)
    prov = case[1]
    (icalendar.use_pytz if prov == "pytz" else icalendar.use_zoneinfo)()
    if case[0] == "isolate":
        return check_isolate(ctx, case, clock)
    _, _, entry, multiple, data = case
    cls = entry_point(entry)
    if multiple & 2:
        # "for every byte string or str": the same input handed over as text (when it is UTF-8)
        try:
            data = data.decode("utf-8")
            ctx.count("str-inputs")
        except UnicodeDecodeError:
            pass
    multiple &= 1
    r = guarded(clock, lambda: cls.from_ical(data, multiple=bool(multiple)))
    ctx.counters["max-steps"] = max(ctx.counters.get("max-steps", 0), clock.count)
    if r[0] == "budget":
        ctx.fail("step-budget-exceeded", observed=f"> {BUDGET} function-entry events (or > {CPU_BUDGET_S} s CPU) in from_ical: {r[1]}", expected=f"<= {BUDGET} for an input of {len(data)} octets",
                 key=classify_budget(prov, data if isinstance(data, bytes) else data.encode('utf-8', 'surrogatepass')))
        return
    if r[0] == "escape":
        ctx.fail("exception-escapes-from_ical", observed=(r[1], r[2]), expected="a result or ValueError")
        return
    if r[0] == "ValueError":
        ctx.count("rejected")
        return
    ctx.count("accepted")
    comps = r[1] if multiple else [r[1]]
    for c in comps:
        r2 = guarded(clock, lambda: (c.to_ical(), c.walk()))
        if r2[0] == "budget":
            ctx.fail("step-budget-exceeded", observed=f"> {BUDGET} events in to_ical/walk", expected=f"<= {BUDGET}")
            return
        if r2[0] != "value":
            # ValueError included: "serialising and walking whatever was returned raises nothing other than ValueError" - a ValueError is admissible
            if r2[0] == "ValueError":
                ctx.count("to_ical-ValueError")
                continue
            ctx.fail("exception-escapes-to_ical-or-walk", observed=(r2[1], r2[2]), expected="bytes and a list (or ValueError)")
            return
        if r.__class__ and c.errors:
            ctx.count("errors-recorded", len(c.errors))


def classify_budget(prov, data):
    """pytz provider: a VTIMEZONE observance with a sub-daily RRULE is expanded up to 2038 while parsing"""
    import re
    if prov != "pytz":
        return None
    text = data.decode("utf-8", "replace").upper()
    flat = re.sub(r"\r?\n[ \t]", "", text)
    if "VTIMEZONE" not in flat:
        return None
    for rule in re.findall(r"RRULE[^\r\n]*", flat):
        if re.search(r"FREQ=(SECONDLY|MINUTELY|HOURLY)", rule):
            return "pytz-subdaily-rrule-budget"
        # a rule the provider does not cut off at 2038 (it has its own COUNT/UNTIL) with an astronomic number of onsets
        m = re.search(r"COUNT=(\d+)", rule)
        u = re.search(r"UNTIL=(\d{4})", rule)
        if re.search(r"FREQ=(DAILY|WEEKLY)", rule) and ((m and int(m.group(1)) >= 100000) or (u and int(u.group(1)) >= 2500)):
            return "pytz-subdaily-rrule-budget"
    return None


def check_toplevel(ctx, case, clock):
    """a bad line outside every component (after a closed top-level VEVENT, between two top-level components) is never isolated"""
    import icalendar
    _, prov, seed, bad, host = case
    rng = random.Random(seed)
    g = G(rng, hostile=0.0, custom_tz=False, unknown=False)
    ev = "".join(fold(l) + "\r\n" for l in emit_lines(g.component("VEVENT")))
    second = "".join(fold(l) + "\r\n" for l in emit_lines(g.component(rng.choice(("VEVENT", "VTODO")))))
    variants = [("Event", 0, ev + bad + "\r\n"), ("Calendar", 1, ev + bad + "\r\n"), ("Calendar", 1, ev + bad + "\r\n" + second), ("Component", 1, ev + second + bad + "\r\n"),
                ("Calendar", 1, bad + "\r\n" + ev)]
    entry, multiple, text = rng.choice(variants)
    r0 = guarded(clock, lambda: entry_point(entry).from_ical(text.replace(bad + "\r\n", ""), multiple=bool(multiple)))
    if r0[0] != "value":
        ctx.count("isolate:base-not-accepted")
        return
    r1 = guarded(clock, lambda: entry_point(entry).from_ical(text, multiple=bool(multiple)))
    if r1[0] == "escape":
        ctx.fail("exception-escapes-from_ical", observed=(r1[1], r1[2], bad), expected="ValueError")
        return
    if r1[0] == "budget":
        ctx.fail("step-budget-exceeded", observed="top-level case", expected=f"<= {BUDGET}")
        return
    if r1[0] == "value":
        a = r1[1] if multiple else [r1[1]]
        b = r0[1] if multiple else [r0[1]]
        if [tree.obs(c) for c in a] == [tree.obs(c) for c in b]:
            ctx.fail("line-outside-components-dropped-silently", observed=(bad, entry, multiple), expected="ValueError")
            return
        ctx.count("isolate:accepted-leniently")
        return
    ctx.count("isolate:toplevel-rejected")


def check_isolate(ctx, case, clock):
    import icalendar
    _, prov, seed, bad, host = case
    if host == "TOPLEVEL":
        return check_toplevel(ctx, case, clock)
    rng = random.Random(seed)
    g = G(rng, hostile=0.0, custom_tz=False, unknown=False)
    # a calendar that certainly contains the host component
    model = g.calendar()
    kinds = {"VEVENT": "VEVENT", "VTODO": "VTODO", "VJOURNAL": "VJOURNAL", "VFREEBUSY": "VFREEBUSY", "VALARM": "VEVENT", "VCALENDAR": None}
    if kinds[host]:
        extra = g.component(kinds[host])
        if host == "VALARM" and not extra[3]:
            extra = (extra[0], extra[1], extra[2], (g.alarm(),))
        model = (model[0], model[1], model[2], model[3] + (extra,))
    lines = emit_lines(model)
    # candidate positions: directly after a BEGIN:<host> line or after any property line directly inside that component
    depth_names = []
    positions = []
    for idx, l in enumerate(lines):
        if l.startswith("BEGIN:"):
            depth_names.append(l[6:])
            if l[6:] == host:
                positions.append(idx + 1)
        elif l.startswith("END:"):
            depth_names.pop()
        elif depth_names and depth_names[-1] == host:
            positions.append(idx + 1)
    if not positions:
        ctx.count("isolate:no-host")
        return
    pos = rng.choice(positions)
    base_text = "".join(fold(l) + "\r\n" for l in lines)
    bad_text = "".join(fold(l) + "\r\n" for l in lines[:pos] + [bad] + lines[pos:])
    r0 = guarded(clock, lambda: icalendar.Calendar.from_ical(base_text))
    if r0[0] != "value":
        ctx.count("isolate:base-not-accepted")
        return
    r1 = guarded(clock, lambda: icalendar.Calendar.from_ical(bad_text))
    if r1[0] == "budget":
        ctx.fail("step-budget-exceeded", observed="isolation case", expected=f"<= {BUDGET}")
        return
    if r1[0] == "escape":
        ctx.fail("exception-escapes-from_ical", observed=(r1[1], r1[2], bad, host), expected="a result or ValueError")
        return
    if host != "VEVENT":
        if r1[0] == "value":
            # leniently accepted lines decide nothing; but a rejected line must not be *silently dropped* in a strict component
            if tree.obs(r1[1]) == tree.obs(r0[1]):
                ctx.fail("strict-component-dropped-line-silently", observed=(bad, host), expected="ValueError")
                return
            ctx.count("isolate:accepted-leniently")
            return
        ctx.count("isolate:strict-rejected")
        return
    if r1[0] == "ValueError":
        ctx.fail("vevent-not-isolating", observed=(bad, r1[1]), expected="the line dropped and recorded in errors")
        return
    o0, o1 = tree.obs(r0[1]), tree.obs(r1[1])
    if o1 != o0:
        n0 = sum(len(c.errors) for c in r0[1].walk())
        n1 = sum(len(c.errors) for c in r1[1].walk())
        if n1 > n0:
            # recorded as unparsable AND something of it was kept: the line is neither dropped nor accepted
            ctx.fail("bad-line-partially-kept", observed=(bad, (tree.diff(o1, o0) or "")[:300]), expected="the line dropped entirely (errors entry) or accepted entirely")
            return
        ctx.count("isolate:accepted-leniently")       # the line was taken as a property: decides nothing
        return
    e0 = [(id_path, len(c.errors)) for id_path, c in enumerate(r0[1].walk())]
    e1 = [(id_path, len(c.errors)) for id_path, c in enumerate(r1[1].walk())]
    diff = [(a, b) for a, b in zip(e0, e1) if a != b]
    if len(diff) != 1 or diff[0][1][1] != diff[0][0][1] + 1 or r1[1].walk()[diff[0][0][0]].name != "VEVENT":
        ctx.fail("errors-entry", observed=(bad, [(r1[1].walk()[b[0]].name, a[1], b[1]) for a, b in diff]), expected="exactly one more errors entry, in the VEVENT that holds the line")
        return
    if r1[1].to_ical() != r0[1].to_ical():
        ctx.fail("isolation-changes-output", observed=bad, expected="identical serialisation")
        return
    ctx.count("isolate:vevent-isolated")


def inconclusive(m, tier):
    c = m["counters"]
    out = []
    acc, rej = c.get("accepted", 0), c.get("rejected", 0)
    if acc + rej and (acc < 0.05 * (acc + rej) or rej < 0.05 * (acc + rej)):
        out.append(f"accepted/rejected balance too one-sided ({acc}/{rej})")
    for k in ("isolate:vevent-isolated", "isolate:strict-rejected", "isolate:toplevel-rejected", "errors-recorded"):
        if not c.get(k):
            out.append(f"monitor counter {k} is zero")
    if not any(k.startswith("raise-site:") for k in c):
        out.append("the RAISE recorder saw no exception inside the library")
    return out


TECHNIQUE = "exception-type monitor at the API boundary + sys.monitoring logical step clock (bounded progress) + isolation oracle on R8 observations"
LEVEL_TEXT = ("Every generated hostile input is parsed through the real entry points under a deterministic step clock (function-entry events counted by "
              "sys.monitoring); any exception other than ValueError from from_ical, any exception from to_ical()/walk() of the result, or more than 10^7 steps is "
              "a violation. Separately, each line of a list of unmistakably unparsable lines is inserted at a random position of a VEVENT / strict component of a "
              "well-formed calendar and the tree must be unchanged apart from one errors entry / the parse must fail with ValueError. A RAISE recorder reports "
              "which error sites inside the library were driven. A grammar of numeric boundary values per RFC value type feeds both the escape monitor and the isolation oracle.")
LEVEL_NOTE = "trusts sys.monitoring's event delivery; the budget 10^7 is a calibrated constant (DESIGN.md C04); wall clock only yields 'inconclusive'"
