"""C02 A calendar built through the API survives serialise and parse intact."""
from ..gen.model import G, build, emit, emit_value, count_props
from ..refs import contentline as R2, fold as R3, refparse, tree, values as R4

ID = "C02"
RULE = ("API programs (G4): trees of VCALENDAR/VEVENT/VTODO/VJOURNAL/VFREEBUSY/VALARM/X- and IANA components built with add(name, value, parameters=), "
        "add_component(); values of every kind the registry (R10) allows for a name: text incl. the escape alphabet, int, float pairs (GEO), date, "
        "floating/UTC/zoned date-time (12 zones), duration, period (explicit and by duration), recurrence rules, categories, date lists (dates, "
        "date-times, periods), FREEBUSY period lists, uri, cal-address; parameters incl. quoted and list values; 1-3 occurrences of repeatable names; "
        "plus the exhaustive RFC 5545 name table (one RFC-style value per property name) and values whose tzinfo is a fixed whole-hour offset "
        "(datetime.timezone, dateutil tzoffset) or an alias of UTC (Etc/UTC, Zulu, GMT, timezone.utc, tzutc) in 7 shapes: read back they must be the same instant, offset and wall time. Oracles: the tree parsed back from to_ical() must equal what "
        "an independent emitter + reference reader say the program denotes (R8: nesting, names, multi-value order, parameters, decoded values with zone "
        "key and utcoffset); every emitted line is read with R2 and its value type recognised with R4: a non-default type must carry the matching VALUE "
        "parameter, a zoned value its TZID, a UTC value a Z and no TZID; decoded(name) must not raise; every direct subcomponent written and read on its own (to_ical()/from_ical() of its class) gives the same subtree; both providers; non-trivial = program with >= 6 "
        "properties; distinct by case hash")
ASSUMPTIONS = ["values are supplied in the kinds R10 allows for the name; UTC-only properties get UTC (S7)", "date lists carry one zone (the library documents no support for several)",
               "G4 keeps wall times out of 00:00-05:00 so that DST gaps/folds (C11) are not involved", "custom VTIMEZONE zones are not used on the API path"]
SOFT_S = {"quick": 14, "thorough": 300}
CASE_TIMEOUT_S = 20

NAME_TABLE = [
    ("VCALENDAR", "CALSCALE", ("text", "GREGORIAN")), ("VCALENDAR", "METHOD", ("text", "REQUEST")), ("VCALENDAR", "PRODID", ("text", "-//ABC Corporation//NONSGML My Product//EN")),
    ("VCALENDAR", "VERSION", ("text", "2.0")), ("VEVENT", "ATTACH", ("uri", "ftp://example.com/pub/reports/r-960812.ps")), ("VEVENT", "CATEGORIES", ("categories", ("APPOINTMENT", "EDUCATION"))),
    ("VEVENT", "CLASS", ("text", "PUBLIC")), ("VEVENT", "COMMENT", ("text", "The meeting really needs to include both ourselves and the customer.")),
    ("VEVENT", "DESCRIPTION", ("text", "Meeting to provide technical review for \"Phoenix\" design.\nHappy Face Conference Room.")), ("VEVENT", "GEO", ("geo", 37.386013, -122.082932)),
    ("VEVENT", "LOCATION", ("text", "Conference Room - F123, Bldg. 002")), ("VTODO", "PERCENT-COMPLETE", ("int", 39)), ("VEVENT", "PRIORITY", ("int", 1)),
    ("VEVENT", "RESOURCES", ("text", "EASEL")), ("VEVENT", "STATUS", ("text", "TENTATIVE")), ("VEVENT", "SUMMARY", ("text", "Department Party")),
    ("VTODO", "COMPLETED", ("dt", 1996, 4, 1, 15, 0, 0, "UTC")), ("VEVENT", "DTEND", ("dt", 1996, 4, 1, 15, 0, 0, "UTC")), ("VTODO", "DUE", ("dt", 1998, 4, 30, 0, 0, 0, "UTC")),
    ("VEVENT", "DTSTART", ("dt", 1998, 1, 18, 7, 30, 0, "UTC")), ("VEVENT", "DURATION", ("td", 3600)), ("VFREEBUSY", "FREEBUSY", ("freebusy", (("period", ("dt", 1997, 3, 8, 16, 0, 0, "UTC"), ("td", 30600)),))),
    ("VEVENT", "TRANSP", ("text", "TRANSPARENT")), ("VTIMEZONE", "TZID", ("text", "America/New_York")), ("STANDARD", "TZNAME", ("text", "EST")),
    ("STANDARD", "TZOFFSETFROM", ("utcoffset", -18000)), ("STANDARD", "TZOFFSETTO", ("utcoffset", 19800)), ("VTIMEZONE", "TZURL", ("uri", "http://timezones.example.org/tz/America-Los_Angeles.ics")),
    ("VEVENT", "ATTENDEE", ("caladdress", "mailto:jsmith@example.com")), ("VEVENT", "CONTACT", ("text", "Jim Dolittle, ABC Industries, +1-919-555-1234")),
    ("VEVENT", "ORGANIZER", ("caladdress", "mailto:jsmith@example.com")), ("VEVENT", "RECURRENCE-ID", ("dt", 1996, 1, 20, 12, 0, 0, "UTC")), ("VEVENT", "RELATED-TO", ("text", "jsmith.part7.19960817T083000.xyzMail@example.com")),
    ("VEVENT", "URL", ("uri", "http://example.com/pub/calendars/jsmith/mytime.ics")), ("VEVENT", "UID", ("text", "19960401T080045Z-4000F192713-0052@example.com")),
    ("VEVENT", "EXDATE", ("datelist", (("dt", 1996, 4, 2, 1, 0, 0, "UTC"), ("dt", 1996, 4, 3, 1, 0, 0, "UTC")))), ("VEVENT", "RDATE", ("datelist", (("d", 1997, 1, 1), ("d", 1997, 1, 20)))),
    ("VEVENT", "RRULE", ("recur", (("FREQ", ("DAILY",)), ("COUNT", (10,))))), ("VALARM", "ACTION", ("text", "AUDIO")), ("VALARM", "REPEAT", ("int", 4)),
    ("VALARM", "TRIGGER", ("td", -900)), ("VALARM", "TRIGGER", ("dt", 1998, 1, 1, 5, 0, 0, "UTC")), ("VEVENT", "CREATED", ("dt", 1996, 3, 29, 13, 30, 0, "UTC")), ("VEVENT", "DTSTAMP", ("dt", 1997, 9, 1, 13, 0, 0, "UTC")),
    ("VEVENT", "LAST-MODIFIED", ("dt", 1996, 8, 17, 13, 30, 0, "UTC")), ("VEVENT", "SEQUENCE", ("int", 2)), ("VEVENT", "REQUEST-STATUS", ("text", "2.0;Success")),
    ("VALARM", "ACKNOWLEDGED", ("dt", 2021, 3, 2, 15, 0, 4, "UTC")), ("VEVENT", "X-CUSTOM", ("text", "anything; at, all")), ("VEVENT", "DTSTART", ("d", 1997, 7, 14)),
    ("VEVENT", "DTEND", ("dt", 1997, 7, 14, 13, 30, 0, "zone:America/New_York")), ("VEVENT", "RDATE", ("datelist", (("period", ("dt", 1996, 4, 3, 2, 0, 0, "UTC"), ("dt", 1996, 4, 3, 4, 0, 0, "UTC")),))),
]


def run(ctx):
    i = 0
    for prov in ("zoneinfo", "pytz"):
        for comp, name, v in NAME_TABLE:
            if ctx.mine(i):
                ctx.check(("single", prov, comp, name, v), "rfc-name-table", enum=True)
            i += 1
    for prov in ("zoneinfo", "pytz"):
        for spec in DIRECT_TZ:
            for shape in ("dtstart", "setter", "due", "rdate", "exdate", "period", "startend"):
                for wall in ((2024, 5, 6, 7, 8, 9), (1975, 1, 2, 23, 4, 5)):
                    if ctx.mine(i):
                        ctx.check(("direct", prov, spec, wall, shape), "nameless-tzinfo", enum=True)
                    i += 1
    # wall times that do not exist (the hour skipped when daylight time starts) or exist twice: the value read back is the value supplied
    for prov in ("zoneinfo", "pytz"):
        for spec, wall in (("zone:Europe/Berlin", (2021, 3, 28, 2, 30, 0)), ("zone:Europe/Berlin", (2021, 10, 31, 2, 30, 0)), ("zone:America/New_York", (2024, 3, 10, 2, 15, 0)),
                           ("zone:America/New_York", (2024, 11, 3, 1, 15, 0)), ("zone:Australia/Lord_Howe", (2024, 10, 6, 2, 10, 0)), ("zone:Pacific/Apia", (2011, 12, 30, 12, 0, 0)),
                           ("zone:Europe/London", (2024, 3, 31, 1, 30, 0)), ("zone:America/Sao_Paulo", (2018, 11, 4, 0, 30, 0))):
            for shape in ("dtstart", "setter", "due", "rdate", "exdate", "period", "startend"):
                if ctx.mine(i):
                    ctx.check(("direct", prov, spec, wall, shape), "gap-and-fold-walltimes", enum=True)
                i += 1
    ctx.exhaustive["RFC 5545 property-name table x providers"] = True
    ctx.exhaustive["fixed whole-hour offsets and UTC aliases x shapes x providers"] = True
    rng = ctx.rng
    n = 0
    while ctx.time_left():
        n += 1
        g = G(rng, hostile=rng.choice((0.0, 0.05, 0.2)), custom_tz=False, api_safe=True, api_custom_tz=(n % 3 == 0))
        ctx.check(("program", "zoneinfo" if n % 2 else "pytz", g.calendar(), rng.choice((None, rng.randrange(10 ** 9)))), "G4-programs")


def expected_type(name, text):
    """(value type of the emitted text per R4, default type of the name per R10) -> VALUE the line must carry, or None"""
    kind = refparse.KIND.get(name, "text")
    if kind == "ddd":
        t = R4.classify(text)
        default = "DURATION" if name in ("DURATION", "TRIGGER") else "DATE-TIME"
        return (t, default)
    if kind == "datelist":
        first = text.split(",")[0]
        return (R4.classify(first), "DATE-TIME")
    return (None, None)


DEFAULT_VALUE = {"freebusy": "PERIOD", "text": "TEXT", "int": "INTEGER", "uri": "URI", "caladdress": "CAL-ADDRESS", "recur": "RECUR", "utcoffset": "UTC-OFFSET",
                 "geo": "FLOAT", "categories": "TEXT", "datelist": "DATE-TIME"}


def neutral(o):
    """A VALUE parameter that merely repeats the default type of its property is not a difference (FREEBUSY;VALUE=PERIOD)."""
    def default_of(name, v):
        k = refparse.KIND.get(name, "text")
        if k == "ddd":
            return "DURATION" if name in ("DURATION", "TRIGGER") else "DATE-TIME"
        return DEFAULT_VALUE.get(k)
    props = []
    for name, values in o[1]:
        vs = []
        for v in values:
            d = default_of(name, v)
            vs.append((v[0], v[1], tuple(p for p in v[2] if not (p[0] == "VALUE" and p[1] == d))))
        props.append((name, tuple(vs)))
    return (o[0], tuple(props), tuple(neutral(s) for s in o[2]))


def check_lines(ctx, data, prov):
    for line in R3.unfold(data).decode("utf-8").split("\r\n"):
        if not line:
            continue
        try:
            name, params, value = R2.parse(line)
        except R2.R2Error as e:
            ctx.fail("emitted-not-rfc", observed=(line[:200], str(e)), expected="tokenizable content line")
            return False
        uname = name.upper()
        pd = {k.upper(): [v for v, _ in vs] for k, vs in params}
        t, default = expected_type(uname, value)
        if t is not None:
            have = pd.get("VALUE", [None])[0]
            if t != default and have != t:
                ctx.fail("missing-value-parameter", observed=line[:200], expected=f"VALUE={t} (default type of {uname} is {default})")
                return False
            if t == default and have not in (None, t):
                ctx.fail("wrong-value-parameter", observed=line[:200], expected=f"no VALUE or VALUE={t}")
                return False
        if refparse.KIND.get(uname) in ("ddd", "datelist", "freebusy"):
            items = value.split(",")
            utc = [x for x in items if x.split("/")[0].endswith("Z")]
            if utc and "TZID" in pd:
                ctx.fail("utc-with-tzid", observed=line[:200], expected="UTC values carry Z and no TZID")
                return False
    return True


DIRECT_TZ = (["fixed:%d" % (h * 3600) for h in range(-12, 15)] + ["dufixed:%d" % (h * 3600) for h in range(-12, 15)] +
             ["stdutc", "duutc", "zi:Etc/UTC", "zi:Zulu", "zi:UTC", "pytz:Etc/UTC", "pytz:Zulu", "pytz:UTC", "zi:Etc/GMT+5", "zi:Etc/GMT-14", "pytz:Etc/GMT+12", "zi:GMT", "pytz:GMT"])


def direct_tz(spec):
    from datetime import timedelta, timezone
    import dateutil.tz
    from .. import vals
    if spec.startswith("fixed:"):
        return timezone(timedelta(seconds=int(spec[6:])))
    if spec.startswith("dufixed:"):
        return dateutil.tz.tzoffset(None, int(spec[8:]))
    if spec == "stdutc":
        return timezone.utc
    if spec == "duutc":
        return dateutil.tz.tzutc()
    return vals.tzinfo_for(spec)


def check_direct(ctx, case):
    """tzinfo objects that are not zones of the tz database under their usual key: fixed whole-hour offsets (datetime.timezone,
    dateutil tzoffset) and the aliases of UTC.  Whatever id the library writes, the value read back must be aware and be the
    same instant with the same offset and wall time (S27)."""
    import icalendar
    from datetime import datetime, timedelta
    from .. import vals
    _, prov, spec, wall, shape = case
    vals.use_provider(prov)
    ctx.nontrivial(True)
    tz = direct_tz(spec)
    dt = vals.attach(datetime(*wall), tz)

    def plus(delta):
        r = dt + delta
        return r.tzinfo.normalize(r) if hasattr(r.tzinfo, "normalize") else r        # (pytz: arithmetic results have to be normalised by the caller)
    comp = icalendar.Todo() if shape == "due" else icalendar.Event()
    try:
        if shape == "dtstart":
            comp.add("dtstart", dt)
        elif shape == "setter":
            comp.start = dt
        elif shape == "due":
            comp.add("due", dt)
        elif shape == "rdate":
            comp.add("rdate", [dt, plus(timedelta(days=1))])
        elif shape == "exdate":
            comp.add("exdate", dt)
        elif shape == "period":
            comp.add("rdate", [(dt, plus(timedelta(hours=2)))])
        else:
            comp.add("dtstart", dt)
            comp.add("dtend", plus(timedelta(hours=1)))
        data = comp.to_ical()
        back = type(comp).from_ical(data)
    except Exception as e:
        ctx.fail("direct-raises", observed=(spec, shape, f"{type(e).__name__}: {e}"[:200]), expected="a round trip")
        return
    name = {"dtstart": "DTSTART", "setter": "DTSTART", "due": "DUE", "rdate": "RDATE", "exdate": "EXDATE", "period": "RDATE", "startend": "DTEND"}[shape]
    v = back[name]
    got = v.dts[0].dt if hasattr(v, "dts") else v.dt
    if isinstance(got, tuple):
        got = got[0]
    want = plus(timedelta(hours=1)) if shape == "startend" else dt
    line = [l for l in data.split(b"\r\n") if l.upper().startswith(name.encode())][:1]
    if not isinstance(got, datetime) or got.tzinfo is None or got != want or got.utcoffset() != want.utcoffset() or got.replace(tzinfo=None) != want.replace(tzinfo=None):
        ctx.fail("direct-value-differs", observed=(spec, shape, line, str(got)), expected=str(want))
        return
    ctx.count("direct-values-equal")


def check_case(ctx, case):
    import icalendar
    from .. import vals
    kind, prov = case[0], case[1]
    if kind == "direct":
        return check_direct(ctx, case)
    vals.use_provider(prov)
    if kind == "single":
        _, _, comp, name, v = case
        model = ("comp", comp, ((name, (), v),), ())
        ctx.nontrivial(True)
    else:
        model = case[2]
        ctx.nontrivial(count_props(model) >= 6)
    text = emit(model)
    try:
        want = refparse.parse(text, prov)
    except refparse.RefReject as e:
        ctx.count("generator-not-wellformed")
        return
    try:
        import random
        sseed = case[3] if kind == "program" and len(case) > 3 else None
        built = build(model, random.Random(sseed) if sseed is not None else None)
        data = built.to_ical()
    except Exception as e:
        ctx.fail("build-or-serialise-raises", observed=f"{type(e).__name__}: {e}"[:300], expected="bytes", detail=repr(model)[:1500])
        return
    if not check_lines(ctx, data, prov):
        return
    # (no provider reset here: the bytes are parsed in the process state the build left behind, as a caller would)
    if b"TZID=Verif/Custom" in data:
        ctx.count("programs-with-custom-zone-values")
    try:
        back = icalendar.cal.Component.from_ical(data)
    except Exception as e:
        key = None
        try:
            refparse.parse(data.decode("utf-8"), prov, refparse.split_defect)
        except refparse.RefReject:
            key = "parts-placeholder"
        except Exception:
            pass
        ctx.fail("reparse-raises", observed=(f"{type(e).__name__}: {e}"[:300]), expected="the tree the program built", detail=data[:1200], key=key)
        return
    got = neutral(tree.obs(back))
    want = [neutral(w) for w in want]
    if got != want[0]:
        key = None
        try:
            # what the emitted bytes denote must be the program (the writer is right) and the defect reader must predict the library exactly
            if neutral(refparse.parse(data.decode("utf-8"), prov)[0]) == want[0] and neutral(refparse.parse(data.decode("utf-8"), prov, refparse.split_defect)[0]) == got:
                key = "parts-placeholder"
        except Exception:
            pass
        ctx.fail("tree-differs", observed=(tree.diff(got, want[0]) or "")[:600], expected="what the API program supplied", key=key, detail=data[:1500])
        return
    # decoded() as a second observation: must not raise
    for c in back.walk():
        for name in list(c.keys()):
            try:
                c.decoded(name)
            except Exception as e:
                ctx.fail("decoded-raises", observed=(c.name, name, f"{type(e).__name__}: {e}"[:200]), expected="a decoded value")
                return
    # the same through the other entry points: every direct subcomponent written by its own to_ical() and read by its own class
    want_subs = list(want[0][2])
    for sub in built.subcomponents:
        try:
            sback = type(sub).from_ical(sub.to_ical())
        except Exception as e:
            ctx.fail("subcomponent-entry-point-raises", observed=(sub.name, f"{type(e).__name__}: {e}"[:200]), expected="the subtree")
            return
        so = neutral(tree.obs(sback))
        if so not in want_subs:
            near = next((w for w in want_subs if w[0] == so[0]), None)
            ctx.fail("subcomponent-entry-point-differs", observed=(sub.name, (tree.diff(so, near) or "")[:400] if near else "no such subcomponent"), expected="the same subtree as through the calendar")
            return
        ctx.count("subcomponent-entry-points")
    ctx.count("programs-equal")
    if kind == "single":
        # the class each RFC name decodes to
        v = back[case[3]]
        v = v[0] if isinstance(v, list) else v
        ctx.count("name-table:" + tree.value_obs(v)[0])


def inconclusive(m, tier):
    c = m["counters"]
    out = []
    if not c.get("programs-equal"):
        out.append("no program reached the comparison")
    return out


TECHNIQUE = "independent emitter + reference reader as oracle for API-built trees; emitted lines typed with R4 for the VALUE/TZID/Z rules"
LEVEL_TEXT = ("Each generated API program is built with the real add()/add_component(), serialised and parsed back; the resulting observation must equal what "
              "an independent emitter and reference reader derive from the same program, every emitted line must carry VALUE/TZID/Z as the RFC requires for "
              "its recognised value type, and decoded() must work. The RFC 5545 property-name table is covered exhaustively, programs are sampled.")
LEVEL_NOTE = "trusts the G3 emitter, refparse and its sub-models; values are within the kinds the registry allows for each name (S7)"
