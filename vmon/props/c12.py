"""C12 VTIMEZONE is interpreted per RFC 5545 onset rules, same in both providers."""
import random
from datetime import datetime, timedelta, timezone

from ..refs import vtimezone as R5

ID = "C12"
RULE = ("(1) VTIMEZONE definitions (G7): 1-4 observances, whole-minute offsets -12h..+14h, kinds {yearly nth-weekday rule pair, rule+UNTIL (UTC), rule+COUNT (both also with RDATE onsets next to the RRULE), RDATE "
        "lists, two open-ended rules of the same kind, single onsets - also onsets hours apart whose local DTSTART order differs from their order in time, and onsets that keep the offset and change only TZNAME or STANDARD/DAYLIGHT}, with/without TZNAME (also the same TZNAME on observances with different offsets), observance order shuffled; built with "
        "Timezone.from_ical(text).to_tz(tzp, lookup_tzid=False) under both providers; instants: every onset -1 s / 0 / +1 s / +20 d (a sample of onsets per "
        "definition in quick) and two instants in 2037; p.astimezone(tz) must give R5's TZOFFSETTO, TZNAME when given, dst()==0 under STANDARD, and the two "
        "providers must agree. (2) histories of 1-5 parsed calendars in one process (zone cache cleared at the start of each history): each calendar "
        "references a custom TZID (plain, or the way other producers write them: with spaces, parentheses, commas, semicolons) from an event and defines it by a VTIMEZONE placed before or after the event; later calendars may define the same "
        "TZID differently; the event's utcoffset must be the one its own calendar defines; non-trivial = definition with >= 2 observances / history "
        "with >= 2 calendars; distinct by case hash")
ASSUMPTIONS = ["instants before the first onset and instants where two observances start together are excluded (the RFC leaves them open) (S5)",
               "only TZIDs unknown to the tz database are generated (the library documents that known ids win) (S5)",
               "R5 (vmon/refs/vtimezone.py) is the RFC 5545 3.6.5 reading; open-ended rules are compared up to 2037"]
SOFT_S = {"quick": 16, "thorough": 420}
CASE_TIMEOUT_S = 30
UTC = timezone.utc
WD = ["MO", "TU", "WE", "TH", "FR", "SA", "SU"]


# ---------------------------------------------------------------- G7
def clamp(off):
    return max(-12 * 3600, min(14 * 3600, off))


def gen_definition(rng):
    kind = rng.choice(("rule-pair", "rule-pair", "rule-until", "rule-count", "rdates", "singles", "single", "independent", "close", "double-rule"))
    std = rng.choice(range(-12 * 60, 14 * 60 + 1, 15)) * 60
    delta = rng.choice((1800, 3600, 3600, 7200))
    dst = clamp(std + delta)
    if dst == std:
        std = dst - delta
    name_mode = rng.choice(("both", "both", "none", "same"))
    names = {"both": ("VST", "VDT"), "none": (None, None), "same": ("LOC", "LOC")}[name_mode]
    obs = []
    if kind.startswith("rule"):
        y0 = rng.randrange(1970, 2011)
        m1, m2 = rng.choice(((3, 10), (4, 9), (3, 11), (10, 3), (9, 4), (5, 8)))
        hour = rng.choice((1, 2, 3))
        with_rdates = rng.choice((0, 0, 1, 2))
        for k, (month, frm, to, nm) in (("DAYLIGHT", (m1, std, dst, names[1])), ("STANDARD", (m2, dst, std, names[0]))):
            n = rng.choice((1, 2, -1, -1, 3))
            wd = rng.randrange(7)
            day = R5.nth_weekday(y0, month, n, wd)
            until = count = None
            if kind == "rule-until":
                yu = y0 + rng.randrange(1, 25)
                # an UNTIL that is an actual onset of the rule, and one in between
                du = R5.nth_weekday(yu, month, n, wd)
                u_local = datetime(yu, month, du, hour)
                u = u_local - timedelta(seconds=frm) + timedelta(seconds=rng.choice((0, 0, 3600, -1, 86400 * 40)))
                until = (u.year, u.month, u.day, u.hour, u.minute, u.second)
            elif kind == "rule-count":
                count = rng.randrange(1, 30)
            rd = ()
            if kind in ("rule-until", "rule-count") and with_rdates:
                # an observance may give further onsets with RDATE next to its RRULE (RFC 5545 3.6.5): here years after the rule has run out
                last = (yu if kind == "rule-until" else y0 + count) + 1
                rd = tuple((last + j, month, 15, hour, 0, 0) for j in range(1, with_rdates + 1) if last + j < 2037)
            obs.append((k, (y0, month, day, hour, 0, 0), frm, to, nm, rd, (month, n, wd, until, count)))
    elif kind == "rdates":
        y0 = rng.randrange(1970, 2020)
        for k, (month, frm, to, nm) in (("DAYLIGHT", (3, std, dst, names[1])), ("STANDARD", (10, dst, std, names[0]))):
            years = sorted(rng.sample(range(y0 + 1, y0 + 12), rng.randrange(1, 5)))
            rd = tuple((y, month, rng.randrange(1, 29), 2, 0, 0) for y in years)
            obs.append((k, (y0, month, rng.randrange(1, 29), 2, 0, 0), frm, to, nm, rd, None))
    elif kind == "singles":
        y = rng.randrange(1970, 2000)
        cur = std
        # some histories contain onsets that keep the UTC offset and change only the name and/or the kind of time in force
        # (daylight time made permanent, a zone renamed): every observance then has its own name
        keep = rng.randrange(3) == 0
        for i in range(rng.randrange(2, 6 if keep else 5)):
            new = clamp(cur + rng.choice((-7200, -3600, -1800, 1800, 3600, 5400)))
            if new == cur:
                new = cur - 3600
            y += rng.randrange(1, 6)
            k = "DAYLIGHT" if new > cur else "STANDARD"
            if keep and i and rng.randrange(2):
                new = cur
                k = rng.choice(("STANDARD", "STANDARD", "DAYLIGHT"))
            nm = (names[1] if k == "DAYLIGHT" else names[0])
            if keep and name_mode != "none":
                nm = f"N{i}{k[0]}"
            obs.append((k, (y, rng.randrange(1, 13), rng.randrange(1, 29), rng.randrange(0, 24), rng.choice((0, 30)), 0), cur, new, nm, (), None))
            cur = new
    elif kind == "independent":
        # TZOFFSETFROM of an observance need not equal the TZOFFSETTO of the one before it: the onset is still local - own TZOFFSETFROM
        y = rng.randrange(1970, 1995)
        base = rng.choice(range(-8 * 60, 10 * 60 + 1, 30)) * 60
        for i in range(rng.randrange(2, 5)):
            y += rng.randrange(1, 8)
            # independent, but within a few hours of each other: a jump of 24 h or more is the date-line case no tzinfo can carry (see C13 apia-dateline)
            frm = clamp(base + rng.choice(range(-180, 181, 30)) * 60)
            to = clamp(frm + rng.choice((-3600, 1800, 3600, 7200)))
            k = rng.choice(("STANDARD", "DAYLIGHT"))
            obs.append((k, (y, rng.randrange(1, 13), rng.randrange(1, 29), rng.randrange(0, 24), 0, 0), frm, to, (names[1] if k == "DAYLIGHT" else names[0]), (), None))
    elif kind == "double-rule":
        # two observances of the same kind with open-ended rules (double summer time from a later year on, in another month):
        # the younger one does not end the older one - each rule keeps producing its onsets
        y0 = rng.randrange(1970, 2000)
        y1 = y0 + rng.randrange(3, 20)
        hour = rng.choice((1, 2, 3))
        dst2 = clamp(dst + 3600)
        if dst2 == dst:
            dst2 = dst - 1800
        specs = (("DAYLIGHT", y0, 3, std, dst, "VDT"), ("STANDARD", y0, 10, dst, std, "VST"), ("DAYLIGHT", y1, 6, dst, dst2, "VDDT"), ("STANDARD", y1, 8, dst2, dst, "VMT"))
        for k, y, month, frm, to, nm in specs[: rng.choice((3, 4))]:
            n = rng.choice((1, 2, -1))
            wd = rng.randrange(7)
            day = R5.nth_weekday(y, month, n, wd)
            obs.append((k, (y, month, day, hour, 0, 0), frm, to, None if name_mode == "none" else nm, (), (month, n, wd, None, None)))
    elif kind == "close":
        # single onsets a few hours apart (as instants): their order as *local* DTSTART values can differ from their order in time,
        # because each DTSTART is local to its own TZOFFSETFROM
        t = datetime(rng.randrange(1971, 2030), rng.randrange(1, 13), rng.randrange(1, 29), rng.randrange(0, 24))
        cur = rng.choice(range(-8 * 60, 10 * 60 + 1, 30)) * 60
        for i in range(rng.randrange(2, 5)):
            chained = rng.randrange(3) > 0
            frm = cur if chained else clamp(cur + rng.choice(range(-240, 241, 30)) * 60)
            to = clamp(frm + rng.choice((-4 * 3600, -3 * 3600, -3600, 1800, 3600, 2 * 3600, 4 * 3600)))
            if to == frm:
                to = frm - 3600
            local = t + timedelta(seconds=frm)
            k = rng.choice(("STANDARD", "DAYLIGHT"))
            nm = None if name_mode == "none" else f"C{i}{k[0]}"
            obs.append((k, (local.year, local.month, local.day, local.hour, local.minute, 0), frm, to, nm, (), None))
            cur = to
            t += timedelta(hours=rng.choice((1, 2, 3, 5, 9, 26, 24 * 40)))
    else:
        obs.append(("STANDARD", (rng.randrange(1970, 2000), 1, 1, 0, 0, 0), std, std, names[0], (), None))
    rng.shuffle(obs)
    return tuple(obs)


def to_r5(defn):
    out = []
    for kind, ds, frm, to, name, rdates, rule in defn:
        r = None
        if rule:
            bymonth, n, wd, until, count = rule
            r = {"bymonth": bymonth, "byday": (n, wd), "until": datetime(*until, tzinfo=UTC) if until else None, "count": count}
        out.append({"kind": kind, "dtstart": datetime(*ds), "from": frm, "to": to, "name": name, "rdates": [datetime(*x) for x in rdates], "rule": r})
    return out


def fmt_off(s):
    sign = "-" if s < 0 else "+"
    s = abs(s)
    return f"{sign}{s // 3600:02}{s % 3600 // 60:02}"


def fmt_dt(t):
    return f"{t[0]:04}{t[1]:02}{t[2]:02}T{t[3]:02}{t[4]:02}{t[5]:02}"


TZID_STYLES = ("Verif/Zone-%d", "Verif/Zone-%d", "(UTC+01:00) Amsterdam, Berlin, Bern %d", "Customized Time Zone; v%d", "Verif Zone %d, with comma",
               # globally unique ids as Mozilla/Evolution write them: unknown to the tz database as a whole, though their tail is an Olson name
               "/verif.example/v%d/Europe/Berlin", "/verif.example/2024_%d/America/New_York")


def text_escape(s):
    return s.replace("\\", "\\\\").replace(";", "\\;").replace(",", "\\,")


def emit_vtimezone(tzid, defn):
    lines = ["BEGIN:VTIMEZONE", f"TZID:{text_escape(tzid)}"]
    for kind, ds, frm, to, name, rdates, rule in defn:
        lines += [f"BEGIN:{kind}", f"DTSTART:{fmt_dt(ds)}", f"TZOFFSETFROM:{fmt_off(frm)}", f"TZOFFSETTO:{fmt_off(to)}"]
        if name:
            lines.append(f"TZNAME:{name}")
        if rule:
            bymonth, n, wd, until, count = rule
            r = f"RRULE:FREQ=YEARLY;BYMONTH={bymonth};BYDAY={n}{WD[wd]}"
            if until:
                r += f";UNTIL={fmt_dt(until)}Z"
            if count:
                r += f";COUNT={count}"
            lines.append(r)
        if rdates:
            lines.append("RDATE:" + ",".join(fmt_dt(x) for x in rdates))
        lines.append(f"END:{kind}")
    lines.append("END:VTIMEZONE")
    return lines


def run(ctx):
    rng = ctx.rng
    n = 0
    while ctx.time_left():
        n += 1
        if n % 4 == 0:
            k = rng.randrange(1, 6)
            style = rng.choice(("Verif/H%d", "Verif/H%d", "(UTC+01:00) Amsterdam, Berlin, Bern %d", "Customized Time Zone; v%d", "/verif.example/h%d/Europe/Berlin"))
            tzids = [style % rng.randrange(3) for _ in range(k)]
            cals = tuple((tzids[j], rng.choice(range(-12 * 60, 14 * 60 + 1, 30)) * 60, rng.choice(("before", "before", "after")),
                          (rng.randrange(1990, 2030), rng.randrange(1, 13), rng.randrange(1, 29), rng.randrange(24), 0, 0)) for j in range(k))
            ctx.check(("history", "zoneinfo" if (n // 4) % 2 else "pytz", cals), "histories")
        else:
            ctx.check(("definition", gen_definition(rng), rng.randrange(10 ** 9)), "definitions")


# ---------------------------------------------------------------- checks
def build_zone(prov, text):
    import icalendar
    (icalendar.use_pytz if prov == "pytz" else icalendar.use_zoneinfo)()
    from icalendar.timezone import tzp
    tzc = icalendar.Timezone.from_ical(text)
    return tzc.to_tz(tzp, lookup_tzid=False)


def observe(tz, p):
    d = p.replace(tzinfo=UTC).astimezone(tz)
    off = d.utcoffset()
    dst = d.dst()
    return (int(off.total_seconds()), d.tzname(), None if dst is None else int(dst.total_seconds()))


def serialised_order(prov, text, r5):
    """the zoneinfo provider feeds dateutil the component as re-serialised by the library: observances keep their order in the text"""
    return r5


def check_definition(ctx, case):
    _, defn, seed = case
    rng = random.Random(seed)
    ctx.nontrivial(len(defn) >= 2)
    r5 = to_r5(defn)
    tl = R5.timeline(r5)
    amb = R5.ambiguous_instants(tl)
    text = "\r\n".join(emit_vtimezone(TZID_STYLES[seed % len(TZID_STYLES)] % (seed % 100000), defn)) + "\r\n"   # ids the way other producers write them, too
    zones = {}
    for prov in ("zoneinfo", "pytz"):
        try:
            zones[prov] = build_zone(prov, text)
        except Exception as e:
            ctx.fail("zone-construction-raises", observed=(prov, f"{type(e).__name__}: {e}"[:200]), expected="a tzinfo", detail=text)
            return
    onsets = [t for t, _ in tl if 1970 <= t.year <= 2037]
    if ctx.quick and len(onsets) > 10:
        onsets = onsets[:3] + rng.sample(onsets[3:-2], 5) + onsets[-2:]
    instants = []
    for t in onsets:
        for d in (-1, 0, 1, 20 * 86400):
            instants.append(t + timedelta(seconds=d))
    instants += [datetime(2037, 6, 1, 12), datetime(2037, 12, 1, 12)]
    first = tl[0][0]
    for p in instants:
        if p < first or p.year > 2037 or any(abs((p - a).total_seconds()) < 2 for a in amb):
            continue
        obs = R5.lookup(tl, p)
        want = (obs["to"], obs["name"], 0 if obs["kind"] == "STANDARD" else None)
        seen = {}
        for prov, tz in zones.items():
            try:
                got = observe(tz, p)
            except Exception as e:
                key = None
                if prov == "zoneinfo" and isinstance(e, TypeError):
                    from .. import defects
                    try:
                        defects.tzical_model(r5, p)
                    except defects.TzicalTypeError:
                        key = "zoneinfo-dateutil-local-lookup"     # the model predicts exactly this crash (no STANDARD, local-time lookup before the first onset)
                    except Exception:
                        pass
                ctx.fail("astimezone-raises", observed=(prov, str(p), f"{type(e).__name__}: {e}"[:200]), expected=want, detail=text, key=key)
                return
            seen[prov] = got
            bad = got[0] != want[0] or (want[1] is not None and got[1] != want[1]) or (want[2] == 0 and got[2] != 0)
            if bad:
                ctx.fail("offset-name-dst", observed=(prov, str(p), got), expected=want, detail=text, key=classify_def(prov, r5, p, got, serialised_order(prov, text, r5)))
                return
        if seen["zoneinfo"][0] != seen["pytz"][0]:
            ctx.fail("providers-disagree", observed=(str(p), seen), expected="same offset")
            return
        ctx.count("instants-checked")


def classify_def(prov, r5, p, got, text_order):
    """zoneinfo provider = dateutil tzical: component lookup on naive local time, generic fromutc, UNTIL read as local time.
    The executable model (vmon/defects.py:tzical_model) must reproduce the observation exactly."""
    if prov != "zoneinfo":
        return None
    from .. import defects
    try:
        pred = defects.tzical_model(text_order, p)
    except Exception:
        return None
    if pred[0] == got[0] and (pred[1] is None or pred[1] == got[1]) and pred[2] == got[2]:
        # which part of the mechanism: the UNTIL reading alone, or the local-time lookup / fromutc algorithm
        tl2 = R5.timeline(r5, until_as_local=True)
        o = R5.lookup(tl2, p) if tl2 and p >= tl2[0][0] else None
        if o is not None and o["to"] == got[0] and (o["name"] is None or o["name"] == got[1]):
            return "zoneinfo-until-local"
        return "zoneinfo-dateutil-local-lookup"
    return None


def check_history(ctx, case):
    import icalendar
    _, prov, cals = case
    ctx.nontrivial(len(cals) >= 2)
    (icalendar.use_pytz if prov == "pytz" else icalendar.use_zoneinfo)()      # clears the zone cache
    cache = {}                                                                  # defect model: first definition wins, define before use
    for idx, (tzid, off, pos, wall) in enumerate(cals):
        defn = (("STANDARD", (1970, 1, 1, 0, 0, 0), off, off, "VST", (), None),)
        vt = emit_vtimezone(tzid, defn)
        ptz = f'"{tzid}"' if any(c in tzid for c in ",;:") else tzid
        ev = ["BEGIN:VEVENT", f"UID:h{idx}", f"DTSTART;TZID={ptz}:{fmt_dt(wall)}", "END:VEVENT"]
        body = vt + ev if pos == "before" else ev + vt
        text = "\r\n".join(["BEGIN:VCALENDAR", "VERSION:2.0", "PRODID:-//verif//c12//"] + body + ["END:VCALENDAR"]) + "\r\n"
        try:
            cal = icalendar.Calendar.from_ical(text)
        except Exception as e:
            ctx.fail("history-parse-raises", observed=f"{type(e).__name__}: {e}"[:200], expected="calendar")
            return
        dt = cal.walk("VEVENT")[0]["DTSTART"].dt
        got = None if dt.tzinfo is None else int(dt.utcoffset().total_seconds())
        # defect model prediction
        if pos == "before" and tzid not in cache:
            cache[tzid] = off
        pred = cache.get(tzid)
        if pos == "after" and tzid not in cache:
            cache[tzid] = off
        if got != off:
            key = None
            if got == pred:
                key = "vtimezone-after-use" if pos == "after" else "tzcache-first-definition-wins"
            ctx.fail("history-offset", observed=(idx, tzid, pos, got), expected=off, key=key, detail=repr(cals))
            continue        # later calendars of the history are still checked
        ctx.count("history-events-checked")


def check_case(ctx, case):
    if case[0] == "definition":
        return check_definition(ctx, case)
    return check_history(ctx, case)


def inconclusive(m, tier):
    c = m["counters"]
    return [f"monitor counter {k} is zero" for k in ("instants-checked", "history-events-checked") if not c.get(k)]


TECHNIQUE = "reference onset interpreter (R5) vs p.astimezone(zone built from the VTIMEZONE) under both providers; cache-history monitor with a define-before-use/first-wins defect model"
LEVEL_TEXT = ("Each generated VTIMEZONE is turned into a zone by both providers and probed one second before, at and after every onset (plus later instants); offset, "
              "abbreviation and zero DST for STANDARD must equal the RFC 5545 onset reading computed by an independent interpreter, and the providers must agree. "
              "Histories of calendars that define the same custom TZID differently and place the VTIMEZONE before or after its use are parsed in one process and "
              "each event must get the offset its own calendar defines. Sampled over definitions, instants and histories.")
LEVEL_NOTE = "trusts vmon/refs/vtimezone.py (calendar-module expansion of yearly nth-weekday rules); rules other than yearly nth-weekday are not generated"
