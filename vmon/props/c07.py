"""C07 TEXT escaping is lossless for every string: alone, as property, in lists."""
import itertools

from .. import contracts, defects
from ..refs import text as R1, contentline as R2, fold as R3

ID = "C07"
ALPHABET = ["\\", "n", "N", ";", ",", ":", '"', "%", "2", "C", "\r", "\n", " ", "a"]
SPECIAL = set('\\;,:"%\r\n')
RULE = ("strings over the critical alphabet {\\ n N ; , : \" % 2 C CR LF SP a}, exhaustive up to length L (quick L<=4, thorough L<=5 on "
        "all paths and L<=6 on the direct codec), each sent through (a) vText encode/decode, (b) a SUMMARY/DESCRIPTION/COMMENT/LOCATION/STATUS/CLASS/TRANSP/CONTACT/RELATED-TO/REQUEST-STATUS/X- property of a "
        "VEVENT (lenient) or VTODO (strict) through to_ical/from_ical, (c) CATEGORIES lists of 1-3 items (items exhaustive <=2 chars, pairs "
        "exhaustive); plus seeded long random Unicode strings (all planes, controls, combining marks, BOM); non-trivial = the string contains a "
        "character that needs escaping or normalising; distinct by construction (enumeration) or case hash")
ASSUMPTIONS = ["R1 (vmon/refs/text.py) is the RFC 5545 3.3.11 TEXT codec",
               "norm(s) = s.replace('\\\\N', LF).replace(CRLF, LF) is the documented normalisation, applied in the library's order",
               "a lone CR is not a 'raw line break' for clause (d)"]
SOFT_S = {"quick": 14, "thorough": 420}
HARD_S = {"quick": 600, "thorough": 7200}

HOSTS = [("VEVENT", "SUMMARY"), ("VTODO", "DESCRIPTION"), ("VEVENT", "X-VERIF-TEXT"), ("VTODO", "COMMENT"),
         ("VEVENT", "LOCATION"), ("VJOURNAL", "SUMMARY"),
         # TEXT properties that usually carry a keyword - text all the same
         ("VEVENT", "STATUS"), ("VTODO", "CLASS"), ("VEVENT", "TRANSP"), ("VJOURNAL", "CONTACT"), ("VEVENT", "RELATED-TO"), ("VTODO", "REQUEST-STATUS")]


def strings(maxlen):
    for L in range(0, maxlen + 1):
        for t in itertools.product(ALPHABET, repeat=L):
            yield "".join(t)


def rand_unicode(rng, n):
    pools = [
        lambda: chr(rng.randrange(0x20, 0x7F)),
        lambda: rng.choice(ALPHABET),
        lambda: chr(rng.choice((0x9, 0xB, 0xC, 0x1, 0x1F, 0x7F, 0x85, 0xA0, 0x2028, 0x2029, 0xFEFF, 0x200B, 0x301, 0x308))),
        lambda: chr(rng.randrange(0xA0, 0x800)),
        lambda: chr(rng.choice((rng.randrange(0x800, 0xD800), rng.randrange(0xE000, 0xFFFE)))),
        lambda: chr(rng.randrange(0x10000, 0x110000)),
    ]
    w = rng.choice(([3, 3, 1, 1, 1, 1], [1, 5, 1, 0, 0, 0], [1, 1, 1, 3, 3, 3], [5, 1, 0, 1, 0, 1]))
    return "".join(rng.choices(pools, weights=w)[0]() for _ in range(n))


def run(ctx):
    contracts.attach_text()
    L_all = 4 if ctx.quick else 5
    i = 0
    for s in strings(L_all):
        if ctx.mine(i):
            ctx.check(("codec", s), "codec", enum=True)
            h = HOSTS[(i // ctx.nshards) % len(HOSTS)]
            ctx.check(("prop", h[0], h[1], s), "property", enum=True)
        i += 1
    ctx.exhaustive[f"alphabet<= {L_all} on codec+property"] = True
    # a lone CR (and other specials) exactly at and around the fold boundaries of the physical lines
    for h in HOSTS:
        for n in list(range(55, 80)) + list(range(128, 153)) + list(range(202, 226)):
            for ch in ("\r", "\r\r", " ", "\t", "\\", ";", "\r "):
                if ctx.mine(i):
                    ctx.check(("prop", h[0], h[1], "a" * n + ch + "b" * 30), "fold-boundary", enum=True)
                i += 1
    if not ctx.quick:
        for t in itertools.product(ALPHABET, repeat=6):
            if ctx.mine(i):
                ctx.check(("codec", "".join(t)), "codec", enum=True)
            i += 1
        ctx.exhaustive["alphabet=6 on codec"] = True
    # category lists: single items and pairs exhaustive over items of <= 2 characters
    items = list(strings(2))
    j = 0
    for a in items:
        if ctx.mine(j):
            ctx.check(("cats", (a,)), "categories", enum=True)
        j += 1
    step = 1 if not ctx.quick else 5
    for ia, a in enumerate(items):
        for ib, b in enumerate(items):
            if (ia + ib) % step == 0:
                if ctx.mine(j):
                    ctx.check(("cats", (a, b)), "categories", enum=True)
                j += 1
    ctx.exhaustive["category pairs"] = not ctx.quick
    rng = ctx.rng
    n = 0
    while ctx.time_left():
        n += 1
        r = n % 8
        if r < 3:
            s = rand_unicode(rng, rng.choice((rng.randrange(1, 12), rng.randrange(1, 200), rng.randrange(1, 1500))))
            ctx.check(("codec", s), "random-codec")
            h = rng.choice(HOSTS)
            ctx.check(("prop", h[0], h[1], s), "random-property")
        elif r < 5:
            k = rng.randrange(1, 4)
            ctx.check(("cats", tuple(rand_unicode(rng, rng.randrange(0, 20)) for _ in range(k))), "random-categories")
        elif r < 7:
            k = rng.randrange(1, 4)
            ctx.check(("cats", tuple("".join(rng.choice(ALPHABET) for _ in range(rng.randrange(0, 6))) for _ in range(k))),
                      "random-categories")
        else:
            s = "".join(rng.choice(ALPHABET) for _ in range(rng.randrange(5, 40)))
            ctx.check(("codec", s), "random-codec")
            h = rng.choice(HOSTS)
            ctx.check(("prop", h[0], h[1], s), "random-property")
    for k, v in contracts.EVALS.items():
        ctx.count("contract_evals:" + k, v)


def _special(s):
    return bool(SPECIAL.intersection(s)) or "\\N" in s


def emitted_value(ctx, data, name):
    """Value text of the single property ``name`` in serialised bytes, read with R3+R2."""
    vals = []
    for line in R3.unfold(data).decode("utf-8").split("\r\n"):
        if not line:
            continue
        try:
            n, params, v = R2.parse(line)
        except R2.R2Error:
            ctx.fail("emitted-line-not-rfc", observed=line, expected="a content line R2 can read")
            continue
        if n.upper() == name:
            vals.append(v)
    return vals


def check_case(ctx, case):
    from icalendar import Event, Todo, Journal
    from icalendar.prop import vText, vCategory
    kind = case[0]
    if kind == "codec":
        s = case[1]
        ctx.nontrivial(_special(s))
        want = R1.norm(s)
        enc = vText(s).to_ical()
        text = enc.decode("utf-8")
        if R1.decode(text) != want:
            ctx.fail("encoded-meaning", observed=text, expected=R1.encode(s))
        bad = R1.unescaped_specials(text)
        if bad:
            ctx.fail("encoded-unescaped", observed=(text, bad[:3]), expected="no raw LF, no unescaped ; or ,")
        got = vText.from_ical(text)
        if str(got) != want:
            ctx.fail("codec-str", observed=str(got), expected=want)
        got_b = vText.from_ical(enc)
        if str(got_b) != want:
            ctx.fail("codec-bytes", observed=str(got_b), expected=want)
    elif kind == "prop":
        _, host, name, s = case
        ctx.nontrivial(_special(s))
        want = R1.norm(s)
        cls = {"VEVENT": Event, "VTODO": Todo, "VJOURNAL": Journal}[host]
        if "\n" not in s:
            # the same characters first go out through value types that do not escape (URI, CAL-ADDRESS): whatever the
            # library remembers from that must not leak into the TEXT encoding
            from icalendar.prop import vUri, vCalAddress
            pre = Event()
            pre.add("url", vUri(s))
            pre.add("attendee", vCalAddress(s))
            pre.to_ical()
        c = cls()
        c.add(name, s)
        data = c.to_ical()
        vals = emitted_value(ctx, data, name)
        if len(vals) != 1:
            ctx.fail("emitted-count", observed=vals, expected="exactly one line for the property")
            return
        if R1.decode(vals[0]) != want:
            ctx.fail("emitted-meaning", observed=vals[0], expected=R1.encode(s))
        if R1.unescaped_specials(vals[0]):
            ctx.fail("emitted-unescaped", observed=vals[0], expected="no raw LF, no unescaped ; or ,")
        try:
            back = cls.from_ical(data)
        except ValueError as e:
            ctx.fail("reparse-rejected", observed=f"ValueError: {e}", expected=want)
            return
        if name not in back:
            ctx.fail("property-missing", observed=("errors", list(back.errors)), expected=want)
            return
        got = back[name]
        if isinstance(got, list) or str(got) != want:
            ctx.fail("property-text", observed=(str(got) if not isinstance(got, list) else [str(g) for g in got]), expected=want)
    elif kind == "cats":
        items = list(case[1])
        ctx.nontrivial(any(_special(x) for x in items))
        want = [R1.norm(x) for x in items]
        vc = vCategory(items)
        text = vc.to_ical().decode("utf-8")
        if [R1.decode(x) for x in R1.split_list(text)] != want:
            ctx.fail("cats-encoded-meaning", observed=text, expected=",".join(R1.encode(x) for x in items))
        got = vCategory.from_ical(text)
        if [str(x) for x in got] != want:
            ctx.fail("cats-codec", observed=[str(x) for x in got], expected=want)
        if [str(x) for x in vc] != want:
            ctx.fail("cats-iter", observed=[str(x) for x in vc], expected=want)
        ev = Event()
        ev.add("categories", items)
        data = ev.to_ical()
        vals = emitted_value(ctx, data, "CATEGORIES")
        if len(vals) != 1 or [R1.decode(x) for x in R1.split_list(vals[0])] != want:
            ctx.fail("cats-emitted-meaning", observed=vals, expected=",".join(R1.encode(x) for x in items))
            return
        try:
            back = Event.from_ical(data)
        except ValueError as e:
            ctx.fail("cats-reparse-rejected", observed=f"ValueError: {e}", expected=want)
            return
        if "CATEGORIES" not in back or isinstance(back["CATEGORIES"], list):
            ctx.fail("cats-property-missing", observed=("errors", list(back.errors)), expected=want)
            return
        got = [str(x) for x in back["CATEGORIES"].cats]
        if got != want:
            ctx.fail("cats-property", observed=got, expected=want)
    else:
        raise ValueError(kind)
    for cname, detail in contracts.drain():
        ctx.fail("contract:" + cname, observed=detail, expected="no raw LF, no unescaped ; or , in encoded TEXT")


# ---- known-finding classifier (executable defect model, exact prediction)
def classify(case, kind, observed, expected):
    if kind == "property-text":
        v = R1.encode(case[3])
        d = defects.placeholder_roundtrip(v)
        if d != v and observed == R1.decode(d):
            return "parts-placeholder-value"
    if kind == "cats-property":
        v = ",".join(R1.encode(x) for x in case[1])
        d = defects.placeholder_roundtrip(v)
        if d != v and observed == [R1.decode(x) for x in R1.split_list(d)]:
            return "parts-placeholder-value"
    return None


def inconclusive(m, tier):
    out = []
    c = m["counters"]
    for name in ("escape_char", "vText.to_ical"):
        if not c.get("contract_evals:" + name):
            out.append(f"contract on {name} was never evaluated")
    return out


TECHNIQUE = "reference TEXT codec (R1) as oracle over exhaustive critical-alphabet strings on three paths + icontract postconditions on escape_char/vText.to_ical"
LEVEL_TEXT = ("All strings over the 14-symbol critical alphabet up to the stated length are pushed through the direct codec, a property of a "
              "lenient and a strict component, and CATEGORIES lists; the decoded result must equal the normalised input and the emitted text must "
              "mean the input under an independent RFC 5545 TEXT decoder. Complete within the length bound, sampled beyond it.")
LEVEL_NOTE = "trusts vmon/refs/text.py, contentline.py, fold.py; strings longer than the bound are only sampled"
