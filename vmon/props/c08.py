"""C08 Parameters round-trip with correct quoting, list arity, caseless names."""
import itertools

from .. import defects
from ..refs import contentline as R2, fold as R3

ID = "C08"
ALPHABET = ["a", ",", ";", ":", "=", "'", "^", " ", "\\", "%", "2", "C", "n", "’", "ä"]
NAMES = ["CN", "ROLE", "X-A", "x-b1", "Dir", "MEMBER", "altrep", "LANGUAGE", "x-long-name-123", "SENT-BY", "3D-MODEL", "007-x", "1", "X-É".encode("ascii", "ignore").decode() or "X-E"]
RULE = ("parameter maps: values over the 15-symbol alphabet {a , ; : = ' ^ SP \\ % 2 C n U+2019 a-umlaut} exhaustive up to length 3, each as scalar and "
        "inside 2-4 item lists at every position, on three paths (Parameters.to_ical/from_ical, Contentline.from_parts/parts, property of a component through "
        "to_ical/from_ical); the empty map, and parameter-less neighbour properties of the component that must come back with empty maps; seeded random printable-Unicode values, 0-6 parameters per map, names over RFC token characters in random case, empty "
        "values and empty list items; the emitted text is additionally read with an independent RFC 5545 tokenizer (R2); non-trivial = some value "
        "contains a delimiter, quote-trigger, backslash or percent, or the map has a multi-valued parameter; distinct by construction / case hash")
ASSUMPTIONS = ["a one-element list and a scalar are the same value (S1)", "values contain no DQUOTE and no control characters (the property's domain)",
               "R2 (vmon/refs/contentline.py) is 'any other conforming parser'"]
SOFT_S = {"quick": 12, "thorough": 240}
PATHS = ("params", "line", "component")
SPECIAL = set(",;:='^ \\%’")


def strings(maxlen):
    for L in range(0, maxlen + 1):
        for t in itertools.product(ALPHABET, repeat=L):
            yield "".join(t)


def shapes(s):
    yield ("scalar", s)
    yield ("list", (s, "x"))
    yield ("list", ("x", s))
    yield ("list", ("p", s, "q"))
    yield ("list", ("p", "q", "r", s))
    yield ("list", (s, s))


def rand_value(rng):
    n = rng.choice((0, 1, 2, 5, 12, rng.randrange(0, 60)))
    out = []
    for _ in range(n):
        r = rng.randrange(9)
        if r == 8:
            # space separators and other non-ASCII blanks are ordinary printable characters of a parameter value
            out.append(rng.choice("\u00a0\u3000\u2003\u2009\u202f\u205f\u1680\u2028\u2029\u200b\ufeff"))
        elif r < 3:
            out.append(rng.choice(ALPHABET))
        elif r < 5:
            c = chr(rng.randrange(0x21, 0x7F))
            out.append("x" if c == '"' else c)
        elif r == 5:
            out.append(chr(rng.randrange(0xA1, 0x800)))
        elif r == 6:
            out.append(chr(rng.choice((rng.randrange(0x800, 0xD800), rng.randrange(0xE000, 0xFFFE)))))
        else:
            out.append(chr(rng.randrange(0x10000, 0x110000)))
    return "".join(out)


def randcase(rng, k):
    return "".join(rng.choice((c.lower(), c.upper())) for c in k)


def run(ctx):
    L = 3 if ctx.quick else 4
    i = 0
    for s in strings(L):
        for sh in shapes(s):
            if ctx.mine(i):
                path = PATHS[(i // ctx.nshards) % 3] if ctx.quick and len(s) == 3 else None
                for p in (PATHS if path is None else (path,)):
                    ctx.check((p, (("CN", sh),)), "alphabet", enum=True)
            i += 1
    for ch in "\u00a0\u3000\u2000\u2001\u2002\u2003\u2004\u2005\u2006\u2007\u2008\u2009\u200a\u202f\u205f\u1680\u2028\u2029\u200b\ufeff\u00ad":
        for sval in ("x" + ch + "y", ch, ch + ch, "a, " + ch):
            for sh in shapes(sval):
                if ctx.mine(i):
                    for pth in PATHS:
                        ctx.check((pth, (("CN", sh),)), "unicode-blanks", enum=True)
                i += 1
    for pth in PATHS:
        if ctx.mine(i):
            ctx.check((pth, ()), "empty-map", enum=True)
        i += 1
    ctx.exhaustive[f"alphabet<= {L} x shapes" + (" (length-3 strings rotate over the three paths)" if ctx.quick else " x paths")] = True
    rng = ctx.rng
    while ctx.time_left():
        names = rng.sample(NAMES, rng.randrange(0, 7))
        items = []
        for nme in names:
            if rng.randrange(3) == 0:
                sh = ("list", tuple(rand_value(rng) for _ in range(rng.randrange(1, 5))))
            else:
                sh = ("scalar", rand_value(rng))
            items.append((randcase(rng, nme), sh))
        ctx.check((rng.choice(PATHS), tuple(items)), "random")


def canon(v):
    """S1: a one-element list is the scalar"""
    if isinstance(v, (list, tuple)):
        v = [str(x) for x in v]
        return v[0] if len(v) == 1 else v
    return str(v)


def want_map(items):
    return {k.upper(): canon(list(sh[1]) if sh[0] == "list" else sh[1]) for k, sh in items}


def got_map(params):
    return {str(k): canon(v) for k, v in params.items()}


def scalar_became_list(items, params):
    """S1 only forgives list -> scalar (same wire form); a supplied scalar must not come back as a list"""
    for k, sh in items:
        if sh[0] == "scalar":
            v = params.get(k.upper()) if hasattr(params, "get") else None
            if isinstance(v, (list, tuple)):
                return (k, v)
    return None


def check_r2(ctx, line, items):
    """another conforming parser must see the same parameters, and delimiters only inside quotes"""
    try:
        name, params, value = R2.parse(line)
    except R2.R2Error as e:
        ctx.fail("emitted-not-rfc", observed=(line, str(e)), expected="a content line an RFC 5545 tokenizer accepts")
        return False
    got = {}
    for k, vals_ in params:
        for v, quoted in vals_:
            if not quoted and any(c in v for c in ",;:"):
                ctx.fail("delimiter-outside-quotes", observed=(line, k, v), expected="values with , ; : inside double quotes")
                return False
        got[k.upper()] = canon([v for v, _ in vals_])
    want = want_map(items)
    if got != want:
        ctx.fail("conforming-parser-differs", observed=(line, got), expected=want)
        return False
    return True


def check_case(ctx, case):
    from icalendar import Event
    from icalendar.parser import Contentline, Parameters
    from icalendar.prop import vCalAddress
    path, items = case
    vals_flat = [x for _, sh in items for x in ((sh[1],) if sh[0] == "scalar" else sh[1])]
    ctx.nontrivial(any(SPECIAL.intersection(v) for v in vals_flat) or any(sh[0] == "list" and len(sh[1]) > 1 for _, sh in items))
    d = {k: (list(sh[1]) if sh[0] == "list" else sh[1]) for k, sh in items}
    want = want_map(items)
    if path == "params":
        text = Parameters(d).to_ical().decode("utf-8")
        if not check_r2(ctx, "X;" + text + ":v" if text else "X:v", items):
            return
        try:
            back = Parameters.from_ical(text) if text else Parameters()
        except ValueError as e:
            ctx.fail("reparse-rejected", observed=(text, str(e)), expected=want)
            return
        got = got_map(back)
        if got != want:
            ctx.fail("params-roundtrip", observed=(text, got), expected=want)
        elif scalar_became_list(items, back):
            ctx.fail("scalar-became-list", observed=(text, scalar_became_list(items, back)), expected=want)
    elif path == "line":
        cl = Contentline.from_parts("ATTENDEE", Parameters(d), vCalAddress("mailto:a@example.com"))
        line = str(cl)
        if not check_r2(ctx, line, items):
            return
        try:
            name, params, value = Contentline.from_ical(cl.to_ical()).parts()
        except ValueError as e:
            ctx.fail("line-reparse-rejected", observed=(line, str(e)[:200]), expected=want)
            return
        got = got_map(params)
        if name != "ATTENDEE" or value != "mailto:a@example.com" or got != want:
            ctx.fail("line-roundtrip", observed=(line, name, got, value), expected=want)
        elif scalar_became_list(items, params):
            ctx.fail("scalar-became-list", observed=(line, scalar_became_list(items, params)), expected=want)
    else:
        ev = Event()
        ev.add("summary", "neighbour without parameters")
        ev.add("attendee", vCalAddress("mailto:a@example.com"), parameters=d)
        ev.add("x-neighbour", "also without")
        data = ev.to_ical()
        lines = [l for l in R3.unfold(data).decode("utf-8").split("\r\n") if l.upper().startswith("ATTENDEE")]
        if len(lines) != 1 or not check_r2(ctx, lines[0], items):
            if len(lines) != 1:
                ctx.fail("emitted-count", observed=lines, expected="one ATTENDEE line")
            return
        try:
            back = Event.from_ical(data)
        except ValueError as e:
            ctx.fail("component-reparse-rejected", observed=(lines[0], str(e)[:200]), expected=want)
            return
        if "ATTENDEE" not in back or isinstance(back["ATTENDEE"], list):
            ctx.fail("component-property-missing", observed=(lines[0], list(back.errors)), expected=want)
            return
        for nb in ("SUMMARY", "X-NEIGHBOUR"):
            if nb not in back or got_map(back[nb].params) != {}:
                ctx.fail("neighbour-parameters", observed=(nb, got_map(back[nb].params) if nb in back else "missing"), expected="present, with an empty parameter map")
                return
        got = got_map(back["ATTENDEE"].params)
        if got != want or str(back["ATTENDEE"]) != "mailto:a@example.com":
            ctx.fail("component-roundtrip", observed=(lines[0], got, str(back["ATTENDEE"])), expected=want)
        elif scalar_became_list(items, back["ATTENDEE"].params):
            ctx.fail("scalar-became-list", observed=(lines[0], scalar_became_list(items, back["ATTENDEE"].params)), expected=want)


# ---- known finding: Contentline.parts() placeholder mechanism, predicted exactly by simulation
def simulate_parts(line):
    return defects.lenient_parts(line)


def classify(case, kind, observed, expected):
    if kind in ("line-roundtrip", "component-roundtrip"):
        line = observed[0]
        if defects.placeholder_escape(line) == line and defects.placeholder_unescape(line) == line:
            return None
        sim = simulate_parts(line)
        got = observed[2] if kind == "line-roundtrip" else observed[1]
        val = observed[3] if kind == "line-roundtrip" else observed[2]
        if sim[0] == "ok" and sim[2] == got and sim[3] == val:
            return "parts-placeholder-param"
    if kind in ("line-reparse-rejected", "component-reparse-rejected", "component-property-missing"):
        line = observed[0]
        if defects.placeholder_escape(line) == line:
            return None
        sim = simulate_parts(line)
        if sim[0] == "reject":
            return "parts-placeholder-param"
        # the tokenizer accepted the escaped line but the library's stricter value checks (control/quote characters) rejected it:
        # only attributable when the backslash swallowed a structural delimiter, i.e. the simulated split differs from the plain RFC split
        try:
            plain = R2.parse(line)
        except R2.R2Error:
            return None
        if (sim[1], sim[3]) != (plain[0], plain[2]) or set(sim[2]) != {k.upper() for k, _ in plain[1]}:
            return "parts-placeholder-param"
    return None


TECHNIQUE = "round-trip oracle on three paths + independent RFC tokenizer (R2) reading the emitted text; exhaustive critical alphabet in every list position"
LEVEL_TEXT = ("Every string over the 15-symbol critical alphabet up to the stated length is used as a parameter value, scalar and at each position of 2-4 item "
              "lists, and sent through the three paths; the recovered map must equal the supplied one (names upper-cased, order and arity kept) and an "
              "independent tokenizer must read the same parameters from the emitted text with every , ; : inside quotes. Complete within the bound.")
LEVEL_NOTE = "trusts vmon/refs/contentline.py and fold.py; DQUOTE and control characters are outside the property's domain"
