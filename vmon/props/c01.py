"""C01 Parse, serialise, parse of any accepted calendar is stable and lossless."""
import glob
import os

from .. import paths
from ..gen.model import G, emit, count_props
from ..gen import mutate
from ..refs import refparse, tree

ID = "C01"
RULE = ("(A) accepted inputs: the repository's .ics fixtures, its fuzz seed corpus, generated calendars (G3: VCALENDAR/VEVENT/VTODO/VJOURNAL/VFREEBUSY/"
        "VTIMEZONE/VALARM/X- and IANA components, every value type, parameters incl. quoted and list values, hostile TEXT with the critical escape "
        "alphabet) and structured mutants of all three (token splices, line swaps/dups/drops, truncation, nesting), kept when from_ical returns, single "
        "and multiple=True, both providers: s1=ser(parse(x)) must not raise, parse(s1) must not raise and must have the same observation (R8, incl. zone "
        "key and utcoffset), ser(parse(s1)) must equal s1 byte for byte; (B) well-formed generated text: the first parse must equal what the text denotes "
        "according to the reference reader (R3+R2+R10+R4+R1); non-trivial = accepted and containing a property with parameters or a TEXT escape; "
        "distinct by input hash")
ASSUMPTIONS = ["every parse starts from a fresh provider state (zone-cache history is C12's subject)", "refparse (vmon/refs/refparse.py) states what well-formed text denotes",
               "G3 keeps wall times away from DST gaps/folds and defines custom VTIMEZONEs before their use (C11/C12 cover those)"]
SOFT_S = {"quick": 16, "thorough": 360}
CASE_TIMEOUT_S = 5     # a mutated VTIMEZONE rule can take minutes to expand (pytz, C04 finding); such cases are abstained from here


def corpus():
    base = os.path.join(paths.REPO_SRC, "icalendar")
    files = sorted(glob.glob(os.path.join(base, "tests", "*", "*.ics")) + glob.glob(os.path.join(base, "fuzzing", "corpus", "*")))
    out = []
    for f in files:
        try:
            with open(f, "rb") as fh:
                out.append((os.path.relpath(f, base), fh.read()))
        except OSError:
            pass
    return out


def run(ctx):
    rng = ctx.rng
    files = corpus()
    ctx.count("corpus-files", len(files) if ctx.shard == 0 else 0)
    i = 0
    for prov in ("zoneinfo", "pytz"):
        for name, data in files:
            for multiple in (0, 1):
                if ctx.mine(i):
                    ctx.check(("accepted", prov, multiple, data), "fixtures+corpus", enum=True)
                i += 1
    n = 0
    while ctx.time_left():
        n += 1
        prov = "zoneinfo" if n % 2 else "pytz"
        r = n % 6
        if r in (0, 1):
            g = G(rng, hostile=rng.choice((0.0, 0.1, 0.3)), multi_resources=True)
            m = g.calendar()
            ctx.check(("wellformed", prov, m, rng.choice((None, rng.randrange(10 ** 6)))), "wellformed-G3")
        elif r == 2:
            g = G(rng, hostile=rng.choice((0.0, 0.2)))
            text = emit(g.calendar()).encode("utf-8")
            ctx.check(("accepted", prov, rng.randrange(2), text), "accepted-G3")
        elif r == 3:
            name, data = rng.choice(files)
            ctx.check(("accepted", prov, rng.randrange(2), mutate.mutate(rng, data)), "mutants-of-fixtures")
        else:
            g = G(rng, hostile=rng.choice((0.0, 0.2)))
            text = emit(g.calendar()).encode("utf-8")
            ctx.check(("accepted", prov, rng.randrange(2), mutate.mutate(rng, text)), "mutants-of-G3")


def reset(prov):
    import icalendar
    (icalendar.use_pytz if prov == "pytz" else icalendar.use_zoneinfo)()


def parse(prov, data, multiple):
    import icalendar
    reset(prov)
    r = icalendar.Calendar.from_ical(data, multiple=bool(multiple))
    return r if multiple else [r]


def ser(comps):
    return b"".join(c.to_ical() for c in comps)


def interesting(o):
    for name, values in o[1]:
        for v in values:
            if v[2] or (v[0] == "text" and any(c in v[1] for c in "\\;,\n")):
                return True
    return any(interesting(s) for s in o[2])


def check_case(ctx, case):
    if case[0] == "wellformed":
        return check_wellformed(ctx, case)
    _, prov, multiple, data = case
    try:
        t0 = parse(prov, data, multiple)
    except ValueError:
        ctx.count("A:rejected")
        return
    except Exception as e:
        ctx.count("A:rejected-other:" + type(e).__name__)    # exception kinds are C04's subject
        return
    ctx.count("A:accepted")
    o0 = [tree.norm_texts(tree.obs(c)) for c in t0]     # C07's documented normalisations are not differences
    ctx.nontrivial(any(interesting(o) for o in o0))
    try:
        s1 = ser(t0)
    except Exception as e:
        ctx.fail("serialise-raises", observed=f"{type(e).__name__}: {e}", expected="bytes", detail=data[:400])
        return
    if multiple and not t0:
        return
    try:
        t1 = parse(prov, s1, multiple)
    except Exception as e:
        ctx.fail("reparse-raises", observed=(f"{type(e).__name__}: {e}"[:300], s1[:600]), expected="the same tree", key=classify_reparse_raises(prov, s1, o0))
        return
    raw1 = [tree.obs(c) for c in t1]
    o1 = [tree.norm_texts(o) for o in raw1]
    if o1 != o0:
        d = next((tree.diff(a, b) for a, b in zip(o1, o0) if a != b), f"{len(o1)} vs {len(o0)} components")
        key = classify_unstable(prov, s1, o0, o1)
        if key is None and raw1 == o0:
            # the second tree is exactly the first after ONE application of the documented normalisation (that is what C07 promises),
            # but that result is not a fixed point of it: CR CR LF -> CR LF -> LF, one CR less per pass
            key = "text-cr-before-crlf-renormalised"
        ctx.fail("unstable-tree", observed=(d[:500], s1[:800]), expected="obs(parse(ser(parse(x)))) == obs(parse(x))", key=key)
        return
    try:
        s2 = ser(t1)
    except Exception as e:
        ctx.fail("serialise-raises-2", observed=f"{type(e).__name__}: {e}", expected="bytes")
        return
    if s2 != s1:
        k = next((j for j, (a, b) in enumerate(zip(s1.split(b"\r\n"), s2.split(b"\r\n"))) if a != b), -1)
        ctx.fail("unstable-bytes", observed=(s2.split(b"\r\n")[k][:200] if k >= 0 else len(s2)), expected=(s1.split(b"\r\n")[k][:200] if k >= 0 else len(s1)))
        return
    ctx.count("A:stable")


def classify_reparse_raises(prov, s1, o0):
    """The re-parse of correctly written output fails: attributed to the placeholder split iff (1) the ideal reading of the output is
    the first tree (it was written correctly) and (2) the reader with the placeholder model switched on rejects it as well
    (a parameter value ending in a backslash: the model turns backslash+';' / backslash+':' into a placeholder and loses the delimiter)."""
    try:
        text = s1.decode("utf-8")
        ideal = refparse.parse(text, prov, refparse.split_lenient, two_pass=False)
        if [tree.strip_zones(tree.norm_texts(o)) for o in ideal] != [tree.strip_zones(o) for o in o0]:
            return None
        try:
            refparse.parse(text, prov, refparse.split_defect, two_pass=False)
        except refparse.RefReject:
            return "parts-placeholder"
    except Exception:
        return None
    return None


def classify_unstable(prov, s1, o0, o1):
    """Known mechanisms explain an unstable re-parse iff (1) s1 denotes the first tree apart from zone resolution (it was
    serialised correctly) and (2) the reader with the defect models switched on - placeholder split, define-before-use
    zone scope - predicts the second tree exactly (offsets of custom zones with rules are masked: computing them is R5/C12)."""
    try:
        text = s1.decode("utf-8")
        ideal = refparse.parse(text, prov, refparse.split_lenient, two_pass=False)
        if [tree.strip_zones(tree.norm_texts(o)) for o in ideal] != [tree.strip_zones(o) for o in o0]:
            return None
        pred = refparse.parse(text, prov, refparse.split_defect, two_pass=False)
        ids = set()
        for o in o0:
            tree.custom_zone_ids(o, ids)
        if [tree.mask_offsets(tree.norm_texts(o), ids) for o in pred] == [tree.mask_offsets(o, ids) for o in o1]:
            if [tree.strip_zones(o) for o in o1] != [tree.strip_zones(o) for o in o0]:
                return "parts-placeholder"
            return "vtimezone-after-use"
    except Exception:
        return None
    return None


def check_wellformed(ctx, case):
    import random
    _, prov, model, inter = case
    text = emit(model, random.Random(inter) if inter is not None else None)
    ctx.nontrivial(count_props(model) >= 5)
    try:
        want = refparse.parse(text, prov)
    except refparse.RefReject as e:
        ctx.count("B:generator-not-wellformed")
        return
    try:
        got_t = parse(prov, text.encode("utf-8"), 0)
    except Exception as e:
        key = None
        try:
            refparse.parse(text, prov, refparse.split_defect)
        except refparse.RefReject:
            key = "parts-placeholder"
        except Exception:
            pass
        ctx.fail("wellformed-rejected", observed=f"{type(e).__name__}: {e}"[:300], expected="accepted", detail=text[:600], key=key)
        return
    got = [tree.obs(c) for c in got_t]
    if got != want:
        key = None
        try:
            # the library registers RESOURCES as one TEXT instead of a TEXT list: exact prediction with that reading alone ...
            if refparse.parse(text, prov, resources_as_list=False) == got:
                key = "multivalue-text-collapsed"
            # ... or together with the placeholder split
            elif refparse.parse(text, prov, refparse.split_defect, resources_as_list=False) == got:
                key = "parts-placeholder"
        except Exception:
            pass
        ctx.fail("wellformed-first-parse", observed=(tree.diff(got[0], want[0]) or "")[:600], expected="what the text denotes (reference reader)", key=key)
        return
    ctx.count("B:first-parse-equal")


def inconclusive(m, tier):
    c = m["counters"]
    out = []
    if c.get("A:accepted", 0) < 1000:
        out.append(f"only {c.get('A:accepted', 0)} accepted inputs (< 1000)")
    if not c.get("B:first-parse-equal"):
        out.append("well-formed stream never reached the comparison")
    if c.get("A:rejected", 0) == 0:
        out.append("mutants never produced a rejected input (mutation too weak)")
    return out


TECHNIQUE = "metamorphic round-trip monitor on accepted inputs (R8 observation incl. zone/offset) + reference reader as oracle for well-formed generated text"
LEVEL_TEXT = ("Every accepted input of the streams (fixtures, fuzz corpus, generated calendars and their mutants, both providers, single and multiple) is "
              "serialised, re-parsed and re-serialised; tree observations and bytes must be stable. For generated well-formed text the first parse must equal "
              "what an independent reference reader says the text denotes. Held = on the executions produced; sampled, not exhaustive.")
LEVEL_NOTE = "trusts vmon/refs/refparse.py and its sub-models, the G3 emitter, and the provider's own tz data for expected offsets"
