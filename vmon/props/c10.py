"""C10 Serialisation is deterministic, pure and insertion-order independent."""
import os
import random
import subprocess
import json

from .. import paths
from ..gen.model import G, build
from ..refs import contentline as R2, fold as R3, tree

ID = "C10"
RULE = ("API programs from G3 (all component kinds, zoned values of several zones so that add_missing_timezones has work, parameters, repeated properties, nested "
        "unknown components): (1) to_ical() twice gives identical bytes and leaves the deep observation (R8 + parameters of every value object by identity + "
        "errors) unchanged, also for values stored as ready-made value objects of 14 classes (through add() and by item assignment, e.g. an absolute TRIGGER) and for the tree parsed from the model's text, and identical bytes twice after the .dt of a stored value object was reassigned, and identical bytes and observation after unrelated use of the library on other objects (the prelude with a fresh token); (2) sorted=True: up to 24 sampled permutations of "
        "the insertion history of distinct properties and parameters (at every nesting level) give identical bytes, while repeated properties and "
        "subcomponents keep insertion order; (3) sorted=False: the property-name sequence of every component equals first-insertion order; (4) the "
        "line sequence is a balanced BEGIN/END nesting; (5) the same program run in fresh subprocesses with PYTHONHASHSEED in {0,1,2,3,4211} (thorough: 16 "
        "seeds) (with date lists of mixed zones and values whose tzinfo has no zone name - datetime.timezone, dateutil tzoffset/gettz/tzutc - added) gives identical sha-256 for to_ical(), to_ical(sorted=False) and after get_used_tzids()+add_missing_timezones(); non-trivial = program "
        "with >= 6 properties and a subcomponent; distinct by case hash")
ASSUMPTIONS = ["the models are written to a file by the worker and only *built and serialised* in the hash-seed children, so the generator cannot introduce hash-seed dependence",
               "hash seeds are sampled, not enumerated"]
SOFT_S = {"quick": 14, "thorough": 300}
CASE_TIMEOUT_S = 60
SHARDS = {"quick": 16, "thorough": 16}


def run(ctx):
    rng = ctx.rng
    batch = []
    n = 0
    while ctx.time_left():
        n += 1
        g = G(rng, hostile=0.05, custom_tz=False, api_safe=True)
        m = g.calendar()
        ctx.check(("program", m, rng.randrange(10 ** 9)), "G4-programs")
        if n % 3 == 0:
            batch.append(m)
        if len(batch) >= 40:
            ctx.check(("hashseeds", tuple(batch)), "hash-seed-batches")
            batch = []
    if batch:
        ctx.check(("hashseeds", tuple(batch)), "hash-seed-batches")


def deep_obs(c):
    """R8 observation plus, per value object identity, its parameters; plus the error lists"""
    extra = []

    def walk(comp, path):
        for name, v in comp.items():
            for i, item in enumerate(v if isinstance(v, list) else [v]):
                extra.append((path, name, i, id(item), tree.params_obs(getattr(item, "params", None))))
        extra.append((path, "errors", tuple(map(str, comp.errors))))
        for j, s in enumerate(comp.subcomponents):
            walk(s, path + (j,))
    walk(c, ())
    return tree.obs(c), tuple(extra)


def lines_of(data):
    out = []
    for l in R3.unfold(data).decode("utf-8").split("\r\n"):
        if l:
            out.append(l)
    return out


def nesting_problem(lines):
    stack = []
    for l in lines:
        try:
            name, params, value = R2.parse(l)
        except R2.R2Error as e:
            return f"line {l[:60]!r} not tokenizable: {e}"
        if name.upper() == "BEGIN":
            stack.append(value)
        elif name.upper() == "END":
            if not stack:
                return f"END:{value} without BEGIN"
            top = stack.pop()
            if top != value:
                return f"END:{value} closes BEGIN:{top}"
        elif not stack:
            return f"property {name} outside a component"
    if stack:
        return f"unclosed {stack}"
    return None


def name_sequences(lines):
    """per component (in pre-order): list of property names in output order, and list of direct subcomponent names"""
    comps = []
    stack = []
    for l in lines:
        name, params, value = R2.parse(l)
        u = name.upper()
        if u == "BEGIN":
            node = {"name": value, "props": [], "subs": []}
            if stack:
                stack[-1]["subs"].append(value)
            comps.append(node)
            stack.append(node)
        elif u == "END":
            stack.pop()
        else:
            stack[-1]["props"].append((u, l))
    return comps


def permute_model(rng, m):
    """another insertion history of the same content: distinct property names shuffled, repeated names keep their relative order;
    parameters shuffled; subcomponents keep their order"""
    _, name, props, subs = m
    names = []
    for p in props:
        if p[0].upper() not in names:
            names.append(p[0].upper())
    rng.shuffle(names)
    newprops = []
    for n in names:
        for p in props:
            if p[0].upper() == n:
                params = list(p[1])
                rng.shuffle(params)
                newprops.append((p[0], tuple(params), p[2]))
    return ("comp", name, tuple(newprops), tuple(permute_model(rng, s) for s in subs))


def expected_unsorted(m):
    """property-name sequence per component in pre-order, first-insertion order with repeated names grouped"""
    out = []
    _, name, props, subs = m
    names = []
    for p in props:
        if p[0].upper() not in names:
            names.append(p[0].upper())
    # add('freebusy', [p1, p2]) stores one value - and writes one line - per period
    seq = [n for n in names for p in props if p[0].upper() == n for _ in range(len(p[2][1]) if p[2][0] == "freebusy" else 1)]
    out.append((name, seq, [s[1] for s in subs]))
    for s in subs:
        out.extend(expected_unsorted(s))
    return out


def nprops(m):
    return len(m[2]) + sum(nprops(s) for s in m[3])


def check_case(ctx, case):
    if case[0] == "hashseeds":
        return check_hashseeds(ctx, case)
    import icalendar
    from icalendar.prop import vDatetime, vDDDTypes, vDDDLists, vPeriod
    from .. import vals
    icalendar.use_zoneinfo()
    _, model, seed = case
    rng = random.Random(seed)
    ctx.nontrivial(nprops(model) >= 6 and len(model[3]) >= 1)
    cal = build(model)
    # ready-made value objects next to the ones made by add()
    ev = cal.subcomponents[0] if cal.subcomponents else cal
    z = vals.py(("dt", 2024, 5, 6, 7, 8, 9, "zone:Europe/Berlin"))
    ev["X-RAW-VDATETIME"] = vDatetime(z)
    ev.add("X-RAW-VDDDTYPES", vDDDTypes(z))
    ev.add("X-RAW-LIST", vDDDLists([z, z]))
    ev.add("X-RAW-PERIOD", vPeriod((z, z)))
    from icalendar import prop as P
    from datetime import date as _date, timedelta as _tdelta
    for nm, obj in (("X-RAW-VDATE", P.vDate(_date(2024, 5, 6))), ("X-RAW-VINT", P.vInt(7)), ("X-RAW-VTEXT", P.vText("raw")), ("X-RAW-VDURATION", P.vDuration(_tdelta(hours=1))),
                    ("X-RAW-VURI", P.vUri("http://example.com/raw")), ("X-RAW-VCALADDRESS", P.vCalAddress("mailto:raw@example.com")), ("X-RAW-VFLOAT", P.vFloat(1.5)),
                    ("X-RAW-VBOOLEAN", P.vBoolean(True)), ("X-RAW-VUTCOFFSET", P.vUTCOffset(_tdelta(hours=1))), ("X-RAW-VRECUR", P.vRecur({"FREQ": "DAILY", "COUNT": 3}))):
        ev.add(nm, obj)
    # values stored by item assignment, past add() and the setters - also under names add() would treat specially
    raw_alarm = icalendar.Alarm()
    raw_alarm["TRIGGER"] = vDDDTypes(vals.py(("dt", 2024, 5, 6, 7, 8, 9, "UTC")))
    raw_alarm["ACTION"] = P.vText("DISPLAY")
    raw_alarm["DURATION"] = vDDDTypes(_tdelta(minutes=5))
    ev.add_component(raw_alarm)
    ev["X-RAW-ITEM-DATE"] = vDDDTypes(_date(2024, 5, 6))
    ev["X-RAW-ITEM-LIST"] = [P.vText("one"), P.vText("two")]
    before = deep_obs(cal)
    s1 = cal.to_ical()
    after = deep_obs(cal)
    if before != after:
        d = tree.diff(before[0], after[0]) or next((f"{a} != {b}" for a, b in zip(before[1], after[1]) if a != b), "extra differs")
        ctx.fail("to_ical-changes-tree", observed=d[:400], expected="tree observably unchanged")
        return
    s2 = cal.to_ical()
    if s1 != s2:
        ctx.fail("not-deterministic", observed="second to_ical() differs", expected="identical bytes")
        return
    prob = nesting_problem(lines_of(s1))
    if prob:
        ctx.fail("unbalanced-nesting", observed=prob, expected="balanced BEGIN/END")
        return
    # unrelated use of the library on *other* objects in between (the prelude again, with a token of its own) changes neither the bytes nor the tree
    from .. import prelude
    prelude.run("X-VERIF-LEAK-%d" % (seed % 100000))
    s3 = cal.to_ical()
    if s3 != s1 or deep_obs(cal) != before:
        k = next((j for j, (x, y) in enumerate(zip(s1.split(b"\r\n"), s3.split(b"\r\n"))) if x != y), -1)
        ctx.fail("bytes-depend-on-unrelated-calls", observed=s3.split(b"\r\n")[k][:200] if k >= 0 else "tree observation changed",
                 expected=s1.split(b"\r\n")[k][:200] if k >= 0 else "unchanged tree")
        return
    ctx.count("purity-checks")
    # ---- the same for a tree that came out of the parser (incl. lines another producer would write: an absolute TRIGGER without VALUE)
    from ..gen.model import emit
    try:
        text = emit(model).replace("END:VCALENDAR", "BEGIN:VEVENT\r\nUID:verif-raw\r\nDTSTART:20240506T070809Z\r\nDTEND;TZID=UTC:20240506T080809\r\nRDATE;TZID=UTC:20240507T070809,20240508T070809\r\nBEGIN:VALARM\r\nACTION:DISPLAY\r\n"
                                   "TRIGGER:20240506T060809Z\r\nEND:VALARM\r\nEND:VEVENT\r\nEND:VCALENDAR", 1)
        parsed = icalendar.Calendar.from_ical(text)
    except ValueError:
        parsed = None
        ctx.count("parsed-purity-skipped")
    if parsed is not None:
        pb = deep_obs(parsed)
        p1 = parsed.to_ical()
        pa = deep_obs(parsed)
        if pb != pa:
            d = tree.diff(pb[0], pa[0]) or next((f"{a} != {b}" for a, b in zip(pb[1], pa[1]) if a != b), "extra differs")
            ctx.fail("to_ical-changes-parsed-tree", observed=d[:400], expected="tree observably unchanged")
            return
        if parsed.to_ical() != p1:
            ctx.fail("not-deterministic", observed="second to_ical() of a parsed tree differs", expected="identical bytes")
            return
        ctx.count("parsed-purity-checks")
    # ---- a value object whose .dt was reassigned (another zone / UTC / floating) after it was stored: whatever is written, it is written twice
    for flag in (True, False):
        mut = build(model)
        evm = mut.subcomponents[0] if mut.subcomponents else mut
        v1, v2 = vDatetime(z), vDDDTypes(z)
        evm["X-REASSIGNED"] = v1
        evm.add("dtstart" if "DTSTART" not in evm else "x-reassigned-too", v2)
        v1.dt = vals.py(("dt", 2024, 5, 6, 7, 8, 9, rng.choice(("zone:Asia/Tokyo", "UTC", None, "zone:America/New_York"))))
        v2.dt = vals.py(("dt", 2024, 5, 6, 7, 8, 9, rng.choice(("zone:Asia/Tokyo", "UTC", None, "zone:America/New_York"))))
        lst = vDDDLists([vals.py(("dt", 2024, 5, 6, 7, 8, 9, None))])
        evm.add("exdate" if "EXDATE" not in evm else "x-reassigned-list", lst)
        lst.dts = [vDDDTypes(vals.py(("dt", 2024, 5, 6, 7, 8, 9, rng.choice(("zone:Asia/Tokyo", "zone:Europe/Berlin", "UTC"))))), vDDDTypes(vals.py(("dt", 2024, 6, 6, 7, 8, 9, "zone:Asia/Tokyo")))]
        m1 = mut.to_ical(sorted=flag)
        m2 = mut.to_ical(sorted=flag)
        if m1 != m2:
            k = next((j for j, (x, y) in enumerate(zip(m1.split(b"\r\n"), m2.split(b"\r\n"))) if x != y), -1)
            ctx.fail("not-deterministic-after-value-reassignment", observed=(f"sorted={flag}", m1.split(b"\r\n")[k][:120], m2.split(b"\r\n")[k][:120]), expected="identical bytes")
            return
    # ---- a VTIMEZONE added after other subcomponents stays where it was inserted (sorted or not)
    from icalendar import Timezone, TimezoneStandard
    from datetime import datetime as _dt, timedelta as _td
    late = build(model)
    tzc = Timezone()
    tzc.add("TZID", "Verif/Late")
    st = TimezoneStandard()
    st.add("DTSTART", _dt(1970, 1, 1))
    st.add("TZOFFSETFROM", _td(hours=1))
    st.add("TZOFFSETTO", _td(hours=1))
    tzc.add_component(st)
    pos = rng.randrange(len(late.subcomponents) + 1)
    late.subcomponents.insert(pos, tzc)
    want_order = [c.name for c in late.subcomponents]
    for flag in (True, False):
        top = name_sequences(lines_of(late.to_ical(sorted=flag)))[0]
        if top["subs"] != want_order:
            ctx.fail("subcomponent-order", observed=(f"sorted={flag}", top["subs"]), expected=want_order)
            return
    # ---- insertion order independence (sorted=True)
    base = build(model).to_ical()
    seqs_base = name_sequences(lines_of(base))
    for _ in range(6 if ctx.quick else 24):
        pm = permute_model(rng, model)
        b = build(pm).to_ical()
        if b != base:
            k = next((j for j, (x, y) in enumerate(zip(base.split(b"\r\n"), b.split(b"\r\n"))) if x != y), -1)
            ctx.fail("insertion-order-dependent", observed=b.split(b"\r\n")[k][:200] if k >= 0 else "length", expected=base.split(b"\r\n")[k][:200] if k >= 0 else "same",
                     detail=repr(pm)[:1200])
            return
        ctx.count("permutations")
    # repeated properties keep insertion order, subcomponents keep insertion order
    exp = expected_unsorted(model)
    if len(exp) != len(seqs_base):
        ctx.fail("component-count", observed=len(seqs_base), expected=len(exp))
        return
    for node, (name, seq, subs) in zip(seqs_base, exp):
        if node["subs"] != subs:
            ctx.fail("subcomponent-order", observed=node["subs"], expected=subs)
            return
        # repeated names: their lines must appear in supplied order (compare the value part order through the sorted output)
        got_names = [n for n, _ in node["props"]]
        if sorted(got_names) != sorted(seq):
            ctx.fail("property-multiset", observed=got_names, expected=seq)
            return
    # ---- sorted=False
    us = build(model).to_ical(sorted=False)
    prob = nesting_problem(lines_of(us))
    if prob:
        ctx.fail("unbalanced-nesting-unsorted", observed=prob, expected="balanced BEGIN/END")
        return
    for node, (name, seq, subs) in zip(name_sequences(lines_of(us)), exp):
        got = [n for n, _ in node["props"]]
        if got != seq or node["subs"] != subs:
            ctx.fail("unsorted-order", observed=(node["name"], got, node["subs"]), expected=(name, seq, subs))
            return
    # repeated-property order under sorted=True: relative order of equal-name lines equals that under sorted=False
    for a, b in zip(seqs_base, name_sequences(lines_of(us))):
        for nm in {n for n, _ in a["props"]}:
            la = [R2.parse(l)[2] for n, l in a["props"] if n == nm]
            lb = [R2.parse(l)[2] for n, l in b["props"] if n == nm]
            if la != lb:
                ctx.fail("repeated-property-order", observed=(nm, la[:4]), expected=lb[:4])
                return
    ctx.count("order-checks")


def check_hashseeds(ctx, case):
    models = case[1]
    ctx.nontrivial(True)
    work = os.path.join(paths.WORK, "C10-hashseed", f"hs-{ctx.shard}-{os.getpid()}")
    os.makedirs(work, exist_ok=True)
    path = os.path.join(work, "models.txt")
    with open(path, "w") as f:
        for m in models:
            f.write(repr(m) + "\n")
    seeds = ["0", "1", "2", "3", "4211"] if ctx.quick else [str(s) for s in (0, 1, 2, 3, 5, 8, 13, 21, 34, 55, 89, 144, 233, 377, 4211, 65537)]
    results = {}
    for hs in seeds:
        env = dict(os.environ, PYTHONHASHSEED=hs)
        r = subprocess.run([paths.PYTHON, "-m", "vmon.hashrun", path], env=env, capture_output=True, text=True, timeout=600, cwd=paths.HERE)
        if r.returncode != 0:
            ctx.count("hashrun-child-failed")
            return
        results[hs] = json.loads(r.stdout.strip().splitlines()[-1])["digests"]
    ref = results[seeds[0]]
    for hs in seeds[1:]:
        for i, (a, b) in enumerate(zip(ref, results[hs])):
            if a != b:
                which = next((j for j, (x, y) in enumerate(zip(a, b)) if x != y), -1)
                ctx.fail("hash-seed-dependent", observed=(f"PYTHONHASHSEED={hs}", ["to_ical", "to_ical(sorted=False)", "after add_missing_timezones", "used tzids"][which] if 0 <= which < 4 else which),
                         expected=f"same digest as PYTHONHASHSEED={seeds[0]}", detail=repr(models[i])[:1500])
                return
    try:
        os.remove(path)
        os.rmdir(work)
    except OSError:
        pass
    ctx.count("hash-seed-programs", len(models))
    ctx.count("hash-seed-runs", len(seeds))


def inconclusive(m, tier):
    c = m["counters"]
    out = [f"monitor counter {k} is zero" for k in ("purity-checks", "permutations", "order-checks", "hash-seed-programs") if not c.get(k)]
    if c.get("hashrun-child-failed"):
        out.append("a hash-seed child process failed")
    return out


TECHNIQUE = "deep tree observation before/after to_ical, permutation of the insertion history, and a PYTHONHASHSEED sweep of fresh subprocesses comparing sha-256 digests"
LEVEL_TEXT = ("Each generated API program is serialised twice with a deep observation of the tree around it, rebuilt under sampled permutations of its insertion "
              "history (bytes must not change; repeated properties and subcomponents must keep their order), serialised unsorted (names must follow insertion "
              "order at every level), checked for balanced nesting with an independent tokenizer, and batches of programs are rebuilt in fresh interpreters "
              "with different hash seeds and compared by digest. The tree parsed from the model's text and values stored by item assignment get the same before/after observation, and bytes and observation must survive unrelated use of the library on other objects in between.")
LEVEL_NOTE = "trusts R8/R2/R3 and the G3 builder; hash seeds and permutations are sampled"
