"""C18 Used-timezone discovery is complete; adding missing timezones closes it."""
import random
from datetime import date

from .. import vals
from ..gen.model import G, build, emit
from ..refs import tree

ID = "C18"
RULE = ("calendars built through the API or parsed from generated text, with zoned values in DTSTART/DTEND/DUE/RECURRENCE-ID/RDATE/EXDATE (lists, periods; in parsed text also date lists whose TZID is unknown, a Windows name or slash-prefixed), "
        "FREEBUSY and explicit TZID parameters on arbitrary (X-, text) properties at depth <= 64; ids: known Olson ids (UTC, Etc/UTC and GMT as literal TZID parameters among them), unknown ids, Windows names and "
        "'/'-prefixed ids; VTIMEZONEs already present drawn from {used, unused, unknown id, duplicate, without TZID, TZID added twice, carrying TZID parameters themselves}; 1-3 repeated calls with random "
        "date windows; both providers. Oracles: get_used_tzids() == the TZID parameters found by the R8 observation on every value of every nested "
        "component; get_missing_tzids() == used - present; neither raises; after add_missing_timezones() every plainly known used id has exactly one "
        "VTIMEZONE (or its earlier count), plainly unknown ids are still missing, no VTIMEZONE with a foreign TZID appears, and a further call leaves "
        "observation and bytes unchanged; non-trivial = at least two distinct used ids; distinct by case hash")
ASSUMPTIONS = ["'plainly known' = zoneinfo can load the id as written; Windows names and '/'-prefixed ids may be treated either way, consistently (n VTIMEZONEs == 0 iff still missing)"]
SOFT_S = {"quick": 16, "thorough": 300}
CASE_TIMEOUT_S = 60
KNOWN = ["Europe/Berlin", "America/New_York", "Asia/Kolkata", "Australia/Lord_Howe", "Africa/Cairo", "Pacific/Apia", "Europe/London", "America/Sao_Paulo", "Asia/Tokyo",
         # ids of UTC itself, written literally as a TZID parameter (values with a Z suffix carry no such parameter)
         "UTC", "Etc/UTC", "GMT", "UTC"]
UNKNOWN = ["Mars/Olympus", "Custom Zone 1", "Europe/Atlantis", "x"]
AMBIGUOUS = ["europe/berlin", "AMERICA/NEW_YORK", "W. Europe Standard Time", "Eastern Standard Time", "/Europe/Berlin", "/mozilla.org/20050126_1/Europe/Berlin", "Tokyo Standard Time"]


def run(ctx):
    rng = ctx.rng
    n = 0
    while ctx.time_left():
        n += 1
        g = G(rng, hostile=0.0, custom_tz=False, api_safe=True)
        model = g.calendar()
        ctx.check(("cal", "zoneinfo" if n % 2 else "pytz", rng.choice(("api", "parsed")), model, rng.randrange(10 ** 9)), "G4-calendars")


def plainly_known(tzid, prov="zoneinfo"):
    """the active provider's own library loads the id as written"""
    if prov == "pytz":
        import pytz
        try:
            pytz.timezone(tzid)
            return True
        except Exception:
            return False
    import zoneinfo
    try:
        zoneinfo.ZoneInfo(tzid)
        return True
    except Exception:
        return False


def used_from_obs(o, acc):
    for name, values in o[1]:
        for v in values:
            for k, pv in v[2]:
                if k == "TZID":
                    acc.add(pv if isinstance(pv, str) else pv)
    for s in o[2]:
        used_from_obs(s, acc)
    return acc


def zones_in_model(m, acc):
    """zone keys of every zoned value the program supplies (DTSTART/DTEND/DUE/RECURRENCE-ID/date lists/periods/FREEBUSY)"""
    def walk_value(v):
        if isinstance(v, tuple):
            if len(v) == 8 and v[0] == "dt" and isinstance(v[7], str) and v[7].startswith("zone:"):
                acc.add(v[7][5:])
            for x in v:
                walk_value(x)
    for pname, params, v in m[2]:
        if pname.upper() in ("DTSTART", "DTEND", "DUE", "RECURRENCE-ID", "RDATE", "EXDATE", "FREEBUSY"):
            walk_value(v)
    for sub in m[3]:
        zones_in_model(sub, acc)
    return acc


def minimal_vtimezone(tzid):
    from icalendar import Timezone, TimezoneStandard
    from datetime import datetime, timedelta
    tz = Timezone()
    if tzid is not None:
        tz.add("TZID", tzid)
    st = TimezoneStandard()
    st.add("DTSTART", datetime(1970, 1, 1))
    st.add("TZOFFSETFROM", timedelta(hours=1))
    st.add("TZOFFSETTO", timedelta(hours=1))
    tz.add_component(st)
    return tz


def check_case(ctx, case):
    import icalendar
    _, prov, how, model, seed = case
    vals.use_provider(prov)
    rng = random.Random(seed)
    if how == "api":
        cal = build(model)
    else:
        try:
            text = emit(model)
            # date lists as other producers write them: the line's own TZID parameter counts, whatever the entries resolve to
            for tzid in rng.sample(KNOWN + UNKNOWN + AMBIGUOUS, rng.randrange(0, 3)):
                pname = rng.choice(("RDATE", "EXDATE", "RDATE;VALUE=PERIOD"))
                value = "20240506T070809/PT1H,20240507T070809/PT1H" if "PERIOD" in pname else "20240506T070809,20240507T070809"
                ptz = f'"{tzid}"' if any(c in tzid for c in ",;:") else tzid
                for host in ("BEGIN:VEVENT\r\n", "BEGIN:VTODO\r\n", "BEGIN:VJOURNAL\r\n"):
                    if host in text:
                        text = text.replace(host, host + f"{pname};TZID={ptz}:{value}\r\n", 1)
                        break
            cal = icalendar.Calendar.from_ical(text)
        except Exception:
            ctx.count("parse-failed")
            return
    # extra TZID carriers: explicit parameters on arbitrary properties, FREEBUSY with TZID, deep nesting
    comps = cal.walk()
    extra_ids = rng.sample(KNOWN + UNKNOWN + AMBIGUOUS, rng.randrange(0, 4))
    program_zones = set()
    for zkey in rng.sample(["Europe/Berlin", "America/New_York", "Asia/Tokyo", "Africa/Cairo"], rng.randrange(0, 2)):
        # date lists and periods in a zone, handed to add() as Python values: the zone is in use whatever object the library builds from them
        target = rng.choice([c for c in comps if c.name in ("VEVENT", "VTODO", "VJOURNAL")] or comps)
        z0 = vals.py(("dt", 2024, 5, 6, 7, 8, 9, "zone:" + zkey))
        from datetime import timedelta as _td
        shape_ = rng.randrange(3)
        if shape_ == 0:
            target.add("rdate", [(z0, z0 + _td(hours=1))])
        elif shape_ == 1:
            target.add("rdate", [(z0, _td(hours=1)), (z0 + _td(days=1), _td(hours=2))])
        else:
            target.add("exdate", [z0, z0 + _td(days=1)])
        program_zones.add(zkey)
    for tzid in extra_ids:
        target = rng.choice(comps)
        k = rng.randrange(3)
        if k == 0:
            target.add("x-verif-zoned", "text value", parameters={"TZID": tzid})
        elif k == 1:
            from icalendar import vDDDTypes
            v = vDDDTypes(vals.py(("dt", 2024, 5, 6, 7, 8, 9, None)))
            v.params["TZID"] = tzid
            target.add(rng.choice(("dtstart", "rdate", "x-when", "freebusy", "due")), v)
        else:
            deep = icalendar.cal.Component()
            deep.name = "X-DEEP"
            inner = icalendar.cal.Component()
            inner.name = "X-INNER"
            inner.add("x-prop", "v", parameters={"TZID": tzid, "X-OTHER": "1"})
            cur = deep
            for _ in range(rng.choice((0, 0, 3, 20, 60))):          # "at any nesting depth": up to the bound C04 uses (S10, S26)
                nxt = icalendar.cal.Component()
                nxt.name = "X-DEEP"
                cur.add_component(nxt)
                cur = nxt
            cur.add_component(inner)
            target.add_component(deep)
    # VTIMEZONEs already present
    obs_used = used_from_obs(tree.obs(cal), set())
    pool = sorted(obs_used) + ["Europe/Paris", "Mars/Olympus", None]
    for _ in range(rng.randrange(0, 4)):
        tzid = rng.choice(pool)
        tz = minimal_vtimezone(tzid)
        cal.add_component(tz)
        if rng.randrange(4) == 0:
            cal.add_component(minimal_vtimezone(tzid))     # duplicate
    # TZID carriers inside the VTIMEZONEs themselves ("any property of any nested component"), and a VTIMEZONE whose TZID was added twice
    zones_now = [t for t in cal.walk("VTIMEZONE")]
    if zones_now and rng.randrange(3) == 0:
        host = rng.choice(zones_now)
        inner = host.subcomponents[0] if host.subcomponents and rng.randrange(2) else host
        inner.add("x-zone-note", "v", parameters={"TZID": rng.choice(KNOWN + UNKNOWN)})
    if rng.randrange(8) == 0:
        twice = minimal_vtimezone(rng.choice(KNOWN))
        twice.add("TZID", rng.choice(KNOWN + UNKNOWN))
        cal.add_component(twice)
    want_used = used_from_obs(tree.obs(cal), set())
    ctx.nontrivial(len(want_used) >= 2)
    present = [str(t["TZID"]) for t in cal.walk("VTIMEZONE") if "TZID" in t]
    try:
        got_used = cal.get_used_tzids()
        got_missing = cal.get_missing_tzids()
    except Exception as e:
        ctx.fail("query-raises", observed=f"{type(e).__name__}: {e}"[:200], expected="sets of ids")
        return
    if set(got_used) != want_used:
        ctx.fail("used-tzids", observed=sorted(got_used), expected=sorted(want_used))
        return
    lost = (zones_in_model(model, set()) | program_zones) - set(got_used)
    if lost:
        # the scan above reads the parameters the value objects carry; what the *program* supplied is the model
        ctx.fail("used-tzids-vs-program", observed=sorted(got_used), expected="also " + ", ".join(sorted(lost)))
        return
    want_missing = want_used - set(present)
    if set(got_missing) != want_missing:
        ctx.fail("missing-tzids", observed=sorted(got_missing), expected=sorted(want_missing))
        return
    ctx.count("queries")
    # ---- closing
    y = rng.randrange(1975, 2030)
    window = {} if rng.randrange(3) == 0 else {"first_date": date(y, 1, 1), "last_date": date(y + rng.randrange(1, 4), 1, 1)}
    try:
        cal.add_missing_timezones(**window)
    except Exception as e:
        ctx.fail("add-missing-raises", observed=f"{type(e).__name__}: {e}"[:200], expected="no exception")
        return
    after = [str(t["TZID"]) for t in cal.walk("VTIMEZONE") if "TZID" in t]
    try:
        missing_after = set(cal.get_missing_tzids())
        used_after = set(cal.get_used_tzids())
    except Exception as e:
        ctx.fail("query-raises-after", observed=f"{type(e).__name__}: {e}"[:200], expected="sets of ids")
        return
    foreign = set(after) - set(present) - want_used
    if foreign:
        ctx.fail("foreign-vtimezone-added", observed=sorted(foreign), expected="only VTIMEZONEs of used ids")
        return
    for u in sorted(want_used):
        pre, post = present.count(u), after.count(u)
        if plainly_known(u, prov) and not u.startswith("/"):
            want_n = pre if pre else 1
            if post != want_n:
                ctx.fail("known-id-count", observed=(u, post), expected=want_n)
                return
            if u in missing_after:
                ctx.fail("known-id-still-missing", observed=u, expected="not missing")
                return
        elif u in UNKNOWN:
            if post != pre or (pre == 0 and u not in missing_after):
                ctx.fail("unknown-id", observed=(u, post, u in missing_after), expected=(pre, "still missing"))
                return
        else:
            if post not in (pre, 1 if pre == 0 else pre) or (post == 0) != (u in missing_after):
                ctx.fail("ambiguous-id-inconsistent", observed=(u, pre, post, u in missing_after), expected="0 VTIMEZONEs iff still missing")
                return
    # vtimezones the library generated are themselves free of new TZID parameters? (they may add none that are unknown)
    if used_after - want_used:
        new = used_after - want_used
        if not new <= set(after):
            ctx.fail("closure-introduces-unknown-ids", observed=sorted(new), expected="no new missing ids")
            return
    # ---- idempotence
    o1, b1 = tree.obs(cal), cal.to_ical()
    for _ in range(rng.randrange(1, 3)):
        try:
            cal.add_missing_timezones(**window)
        except Exception as e:
            ctx.fail("add-missing-raises-again", observed=f"{type(e).__name__}: {e}"[:200], expected="no exception")
            return
    if tree.obs(cal) != o1 or cal.to_ical() != b1:
        now = [str(t["TZID"]) for t in cal.walk("VTIMEZONE") if "TZID" in t]
        ctx.fail("repeat-call-changes-calendar", observed=sorted(now), expected=sorted(after))
        return
    ctx.count("closures")


def inconclusive(m, tier):
    c = m["counters"]
    return [f"monitor counter {k} is zero" for k in ("queries", "closures") if not c.get(k)]


TECHNIQUE = "reference scan of the R8 observation for TZID parameters vs get_used/missing_tzids; invariant checks after add_missing_timezones incl. idempotence"
LEVEL_TEXT = ("For each generated calendar (with extra TZID carriers on arbitrary properties and nested unknown components, and pre-existing VTIMEZONEs of every "
              "awkward kind) the reported used/missing sets are compared with an independent scan of the tree observation, and after add_missing_timezones() "
              "the count of VTIMEZONEs per used id, the still-missing set, absence of foreign zones and idempotence are checked. Sampled, both providers.")
LEVEL_NOTE = "trusts R8 and zoneinfo's ability to load an id as the definition of 'plainly known'"
