"""C20 Traversal is complete; equality is an order-insensitive equivalence."""
import copy
import pickle
import random

from .. import vals
from ..gen.model import G, build, emit
from ..refs import tree

ID = "C20"
RULE = ("component trees from G3 (depth <= 6, fan-out <= 5, repeated and unknown component names, duplicate subcomponents), built through the API and parsed from "
        "text: walk() must be the pre-order list of all nested components by identity; walk(name) with the name in random letter case, walk(select=) and "
        "events/todos/timezones must be the filtered pre-order list; equality: reflexive, symmetric, False (no exception) against {None, 0, '', {}, [], "
        "object(), a plain dict with the same items}, unchanged by permuting subcomponents at every level (all permutations when <= 4 children, else "
        "sampled) and by shuffling property insertion order and name case, and False in both directions after every single perturbation (component kind, "
        "one property value, property added/removed, subcomponent added/removed, one subcomponent duplicated in place of a sibling); copies by "
        "deepcopy, pickle (of the API-built and of the parsed tree) and serialise+parse are equal both ways and serialise identically, and two parses of one text (custom VTIMEZONE definitions with X- "
        "properties included) are equal to each other; sibling families with identical properties that differ only in their children; non-trivial = tree with >= 3 components; distinct by case hash")
ASSUMPTIONS = ["components carry upper-case names (as the parser produces) (S12)", "runs under the default (zoneinfo) provider; pytz pickling of custom zones is noted separately (S12)",
               "parameter-only perturbations are not asserted either way (the statement names kind, value and subcomponent multiset)",
               "the serialise+parse copy is taken of the API-built tree and of a parsed tree, both without TEXT escapes (round-trip losses are C01/C02 findings: a copy whose R8 observation differs is not judged here)"]
SOFT_S = {"quick": 14, "thorough": 300}
CASE_TIMEOUT_S = 20


def run(ctx):
    rng = ctx.rng
    while ctx.time_left():
        g = G(rng, hostile=0.0, custom_tz=False, api_safe=True, max_depth=6, api_custom_tz=(rng.randrange(3) == 0))
        m = g.calendar()
        m = enrich(rng, m)
        ctx.check(("tree", m, rng.randrange(10 ** 9)), "G3-trees")


def enrich(rng, m):
    """more nesting, repeated names and duplicate subcomponents than the plain calendar generator gives"""
    _, name, props, subs = m
    subs = list(subs)
    if subs and rng.randrange(2):
        subs.append(rng.choice(subs))                       # an exact duplicate sibling
    if rng.randrange(2):
        inner = ("comp", rng.choice(("X-GROUP", "VEVENT", "X-GROUP")), (("X-NOTE", (), ("text", "n%d" % rng.randrange(3))),), tuple(subs[:2]))
        subs.append(("comp", "X-GROUP", (("X-NOTE", (), ("text", "outer")),), (inner,)))
    if rng.randrange(3) == 0:
        # a family of siblings with identical properties that differ only *below* themselves (the multiset of their children):
        # matching siblings across two orders must look into the subtrees, whatever order those are in
        fprops = (("X-NOTE", (), ("text", "family")),)
        kind = rng.choice(("X-FAM", "VEVENT", "VTODO"))
        for _ in range(rng.randrange(2, 4)):
            kids = tuple(("comp", rng.choice(("X-KID", "VALARM")), (("X-NOTE", (), ("text", "n%d" % rng.randrange(5))),), ()) for _ in range(rng.randrange(0, 4)))
            subs.append(("comp", kind, fprops, kids))
    rng.shuffle(subs)
    zones = [x for x in subs if x[1] == "VTIMEZONE"]             # (never cut away: values of other components refer to them)
    return ("comp", name, props, tuple(zones + [x for x in subs if x[1] != "VTIMEZONE"][:7]))


def preorder(c):
    out = [c]
    for s in c.subcomponents:
        out.extend(preorder(s))
    return out


def ids(xs):
    return [id(x) for x in xs]


def randcase(rng, s):
    return "".join(rng.choice((c.lower(), c.upper())) for c in s)


def permuted(rng, m, shuffle_props=True):
    _, name, props, subs = m
    subs = [permuted(rng, s, shuffle_props) for s in subs]
    rng.shuffle(subs)
    props = list(props)
    if shuffle_props:
        # only properties with distinct names may move relative to each other; keep repeated names in order
        names = []
        for p in props:
            if p[0].upper() not in names:
                names.append(p[0].upper())
        rng.shuffle(names)
        props = [(randcase(rng, p[0]), p[1], p[2]) for n in names for p in props if p[0].upper() == n]
    return ("comp", name, tuple(props), tuple(subs))


def perturbations(rng, m):
    """yield (description, model') each differing from m in exactly one respect"""
    nodes = []

    def collect(node, path):
        nodes.append(path)
        for i, s in enumerate(node[3]):
            collect(s, path + (i,))
    collect(m, ())

    def replace(node, path, fn):
        if not path:
            return fn(node)
        subs = list(node[3])
        subs[path[0]] = replace(subs[path[0]], path[1:], fn)
        return (node[0], node[1], node[2], tuple(subs))

    for _ in range(6):
        path = rng.choice(nodes)
        k = rng.randrange(7)
        if k == 0:
            def fn(n):
                new = {"VEVENT": "VTODO", "VTODO": "VJOURNAL", "VJOURNAL": "VEVENT", "VALARM": "X-ALARM", "VCALENDAR": "X-CAL"}.get(n[1], n[1] + "-B")
                return (n[0], new, tuple(p for p in n[2]), n[3])
            yield ("kind", replace(m, path, fn))
        elif k == 1:
            def fn(n):
                if not n[2]:
                    return (n[0], n[1], (("X-ADDED", (), ("text", "v")),), n[3])
                i = rng.randrange(len(n[2]))
                p = n[2][i]
                v = p[2]
                if v[0] == "text":
                    nv = ("text", v[1] + " changed")
                elif v[0] == "int":
                    nv = ("int", v[1] + 1)
                elif v[0] == "d":
                    nv = ("d", v[1], v[2], v[3] % 28 + 1)
                elif v[0] == "dt" and isinstance(v[7], str) and v[7].startswith("zone:") and rng.randrange(2):
                    # the same instant written in UTC: another value (other wall time, other zone), though datetime equality alone would not tell
                    u = vals.py(v).astimezone(vals.tzinfo_for("UTC"))
                    nv = ("dt", u.year, u.month, u.day, u.hour, u.minute, u.second, "UTC")
                elif v[0] == "dt":
                    nv = v[:6] + ((v[6] + 1) % 60,) + v[7:]
                elif v[0] == "td":
                    nv = ("td", v[1] + 60)
                elif v[0] in ("uri", "caladdress"):
                    nv = (v[0], v[1] + "x")
                elif v[0] == "categories":
                    nv = ("categories", v[1] + ("extra",))
                elif v[0] == "geo":
                    nv = ("geo", v[1], v[2] + 1.0 if v[2] < 179 else v[2] - 1.0)
                else:
                    return (n[0], n[1], n[2][:i] + n[2][i + 1:], n[3])
                return (n[0], n[1], n[2][:i] + ((p[0], p[1], nv),) + n[2][i + 1:], n[3])
            yield ("value", replace(m, path, fn))
        elif k == 2:
            yield ("property-added", replace(m, path, lambda n: (n[0], n[1], n[2] + (("X-PERTURB", (), ("text", "p")),), n[3])))
        elif k == 3:
            def fn(n):
                if not n[2]:
                    return (n[0], n[1], (("X-ADDED", (), ("text", "v")),), n[3])
                i = rng.randrange(len(n[2]))
                return (n[0], n[1], n[2][:i] + n[2][i + 1:], n[3])
            yield ("property-removed", replace(m, path, fn))
        elif k == 4:
            yield ("sub-added", replace(m, path, lambda n: (n[0], n[1], n[2], n[3] + (("comp", "X-EXTRA", (("X-NOTE", (), ("text", "e")),), ()),))))
        elif k == 5:
            def fn(n):
                if not n[3]:
                    return (n[0], n[1], n[2], (("comp", "X-EXTRA", (), ()),))
                i = rng.randrange(len(n[3]))
                return (n[0], n[1], n[2], n[3][:i] + n[3][i + 1:])
            yield ("sub-removed", replace(m, path, fn))
        else:
            def fn(n):
                subs = n[3]
                distinct = [(i, j) for i in range(len(subs)) for j in range(len(subs)) if i != j and subs[i] != subs[j]]
                if not distinct:
                    return (n[0], n[1], n[2], subs + (("comp", "X-EXTRA", (), ()),))
                i, j = rng.choice(distinct)
                new = list(subs)
                new[j] = subs[i]                               # [.. x .. y ..] -> [.. x .. x ..]
                return (n[0], n[1], n[2], tuple(new))
            yield ("sub-duplicated-over-sibling", replace(m, path, fn))


def eq_outcome(a, b):
    try:
        return ("value", a == b, a != b)
    except Exception as e:
        return ("raise", type(e).__name__, str(e)[:100])


def check_case(ctx, case):
    import icalendar
    from icalendar.cal import Component
    icalendar.use_zoneinfo()
    _, model, seed = case
    rng = random.Random(seed)
    a = build(model)
    nodes = preorder(a)
    ctx.nontrivial(len(nodes) >= 3)
    # ---- traversal
    for root, label in ((a, "api"),):
        w = root.walk()
        if ids(w) != ids(nodes):
            ctx.fail("walk", observed=[c.name for c in w], expected=[c.name for c in nodes])
            return
        names = sorted({c.name for c in nodes if c.name})
        for nm in names + ["X-ABSENT"]:
            q = randcase(rng, nm)
            want = [c for c in nodes if c.name == nm]
            got = root.walk(q)
            if ids(got) != ids(want):
                ctx.fail("walk-name", observed=(q, [c.name for c in got]), expected=len(want))
                return
        sel = lambda c: len(c) % 2 == 0
        if ids(root.walk(select=sel)) != ids([c for c in nodes if sel(c)]):
            ctx.fail("walk-select", observed=len(root.walk(select=sel)), expected=len([c for c in nodes if sel(c)]))
            return
        nm = rng.choice(names)
        if ids(root.walk(nm, select=sel)) != ids([c for c in nodes if c.name == nm and sel(c)]):
            ctx.fail("walk-name-select", observed=nm, expected="filtered pre-order list")
            return
        for attr, kind in (("events", "VEVENT"), ("todos", "VTODO"), ("timezones", "VTIMEZONE")):
            got = getattr(root, attr)
            want = [c for c in nodes if c.name == kind]
            if ids(got) != ids(want):
                ctx.fail("accessor-" + attr, observed=len(got), expected=len(want))
                return
    ctx.count("traversals")
    # ---- equality: reflexive, non-components
    r = eq_outcome(a, a)
    if r != ("value", True, False):
        ctx.fail("eq-reflexive", observed=r, expected=("value", True, False))
        return
    for other in (None, 0, "", {}, [], object(), dict(a), "VCALENDAR", 1.5, (1,)):
        for x, y in ((a, other), (other, a)):
            r = eq_outcome(x, y)
            if r != ("value", False, True):
                ctx.fail("eq-noncomponent", observed=(type(other).__name__, r), expected=("value", False, True))
                return
    # ---- copies
    copies = [("deepcopy", lambda: copy.deepcopy(a)), ("pickle", lambda: pickle.loads(pickle.dumps(a)))]
    ser_a = a.to_ical()
    for label, mk in copies:
        try:
            b = mk()
        except Exception as e:
            ctx.fail("copy-raises", observed=(label, f"{type(e).__name__}: {e}"[:200]), expected="a copy")
            return
        if eq_outcome(a, b) != ("value", True, False) or eq_outcome(b, a) != ("value", True, False):
            ctx.fail("copy-not-equal", observed=(label, eq_outcome(a, b), eq_outcome(b, a)), expected="equal both ways")
            return
        if b.to_ical() != ser_a:
            ctx.fail("copy-serialises-differently", observed=label, expected="identical bytes")
            return
        if any(x is y for x, y in zip(preorder(b), nodes)):
            ctx.fail("copy-shares-components", observed=label, expected="independent components")
            return
    # serialise+parse copy of the API-built tree itself (the generator writes no TEXT escapes here, so C01/C02's round-trip findings stay out)
    try:
        c = icalendar.Calendar.from_ical(ser_a)
    except Exception as e:
        ctx.count("api-reparse-skipped:" + type(e).__name__)
        c = None
    if c is not None:
        if eq_outcome(a, c) != ("value", True, False) or eq_outcome(c, a) != ("value", True, False):
            if tree.obs(a) == tree.obs(c):
                ctx.fail("copy-not-equal", observed=("serialise+parse of the API-built tree", eq_outcome(a, c), eq_outcome(c, a)), expected="equal both ways")
                return
            ctx.count("api-reparse-skipped:observation-differs")       # what was lost on the way is C02's subject
        elif c.to_ical() != ser_a:
            ctx.fail("copy-serialises-differently", observed="serialise+parse of the API-built tree", expected="identical bytes")
            return
        else:
            ctx.count("api-reparse-copies")
    # serialise+parse copy of a parsed tree
    text = emit(model)
    try:
        p1 = icalendar.Calendar.from_ical(text)
        p1b = icalendar.Calendar.from_ical(text)
        p2 = icalendar.Calendar.from_ical(p1.to_ical())
    except Exception as e:
        ctx.count("reparse-copy-skipped:" + type(e).__name__)
        p1 = None
    if p1 is not None:
        # two serialise+parse copies of one original are both equal to it, hence (equivalence) to each other - also when the
        # first one was the first in this process to meet a VTIMEZONE id
        if eq_outcome(p1, p1b) != ("value", True, False) or eq_outcome(p1b, p1) != ("value", True, False) or p1.to_ical() != p1b.to_ical():
            ctx.fail("two-parses-of-one-text-unequal", observed=(eq_outcome(p1, p1b), p1.to_ical() == p1b.to_ical()), expected="equal both ways, identical bytes", detail=text[:1500])
            return
        if eq_outcome(p1, p2) != ("value", True, False) or eq_outcome(p2, p1) != ("value", True, False):
            if tree.obs(p1) == tree.obs(p2):
                ctx.fail("reparse-copy-not-equal", observed=(eq_outcome(p1, p2), eq_outcome(p2, p1)), expected="equal both ways")
                return
            ctx.count("reparse-copy-skipped:unstable-tree")        # C01's subject
        elif p1.to_ical() != p2.to_ical():
            ctx.fail("reparse-copy-serialises-differently", observed="bytes differ", expected="identical bytes")
            return
        # deep copy and pickle of the tree that came out of the parser (unknown component names included)
        ser_p = p1.to_ical()
        for label, mk in (("deepcopy-of-parsed", lambda: copy.deepcopy(p1)), ("pickle-of-parsed", lambda: pickle.loads(pickle.dumps(p1)))):
            try:
                b = mk()
            except Exception as e:
                ctx.fail("copy-raises", observed=(label, f"{type(e).__name__}: {e}"[:200]), expected="a copy")
                return
            if eq_outcome(p1, b) != ("value", True, False) or eq_outcome(b, p1) != ("value", True, False):
                ctx.fail("copy-not-equal", observed=(label, eq_outcome(p1, b), eq_outcome(b, p1)), expected="equal both ways")
                return
            if b.to_ical() != ser_p:
                ctx.fail("copy-serialises-differently", observed=label, expected="identical bytes")
                return
        ctx.count("reparse-copies")
    # ---- permutations
    for _ in range(3):
        pm = permuted(rng, model)
        b = build(pm)
        r1, r2 = eq_outcome(a, b), eq_outcome(b, a)
        if r1 != ("value", True, False) or r2 != ("value", True, False):
            ctx.fail("permutation-not-equal", observed=(r1, r2), expected="equal both ways", detail=repr(pm)[:1500])
            return
        ctx.count("permutations")
    # ---- single perturbations
    for what, pm in perturbations(rng, model):
        if pm == model:
            continue
        b = build(pm)
        # reference: multiset-canonical observation must differ, otherwise the perturbation was not one (e.g. duplicate of an equal sibling)
        if canon(tree.obs(a)) == canon(tree.obs(b)):
            ctx.count("perturbation-not-effective")
            continue
        r1, r2 = eq_outcome(a, b), eq_outcome(b, a)
        if r1 != ("value", False, True) or r2 != ("value", False, True):
            ctx.fail("perturbation-equal", observed=(what, r1, r2), expected="unequal both ways", detail=repr(pm)[:1500])
            return
        ctx.count("perturbations:" + what)


def canon(o):
    """reference equality: observation with subcomponents as a multiset (recursively sorted)"""
    return (o[0], o[1], tuple(sorted((canon(s) for s in o[2]), key=repr)))


def inconclusive(m, tier):
    c = m["counters"]
    out = []
    for k in ("traversals", "permutations", "reparse-copies", "perturbations:kind", "perturbations:value", "perturbations:sub-duplicated-over-sibling",
              "perturbations:sub-removed", "perturbations:sub-added"):
        if not c.get(k):
            out.append(f"monitor counter {k} is zero")
    return out


TECHNIQUE = "identity-based pre-order reference traversal + metamorphic equality monitor (permutations must stay equal, single perturbations must become unequal, copies equal)"
LEVEL_TEXT = ("For each generated tree the real walk()/accessors are compared by identity with an independent pre-order traversal and filters; the real == / != are "
              "evaluated in both directions against the tree itself, non-components, three kinds of copies, permuted rebuilds (subcomponent order, property "
              "insertion order, name case) and single-perturbation rebuilds; a perturbation counts only if the multiset-canonical R8 observation differs. "
              "Sampled over trees, permutations and perturbations. Copies (deep copy, pickle) are also taken of the parsed tree, and two parses of one text must be equal.")
LEVEL_NOTE = "trusts the G3 builder, R8 and Python's copy/pickle; parameter-only differences are not asserted"
