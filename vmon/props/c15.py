"""C15 An alarm is active iff not acknowledged at/after its (snoozed) trigger."""
from datetime import date, datetime, timedelta, timezone

from .. import vals
from ..refs import alarms as R6

ID = "C15"
RULE = ("all cells of a 7-point time lattice around the trigger: alarm ACKNOWLEDGED, component acknowledgement (DTSTAMP, or X-MOZ-LASTACK for Thunderbird "
        "components) and snooze each absent or at one of 7 instants (8^3 = 512 orderings incl. equalities) x trigger kind {UTC, zoned, floating, date, zoned inside the repeated hour at the end of daylight time, absolute floating, absolute UTC} x "
        "local zone {unset, str, tzinfo} x Thunderbird/not x provider {zoneinfo, pytz}, exhaustively; every cell also checks a second, never acknowledged "
        "alarm, sub-list-ness of active, (in a third of the cells) the cell's values set by acknowledge_until/snooze_until after earlier calls with other values, None included, and monotonicity (each acknowledgement moved one lattice step later); plus seeded random instants; "
        "non-trivial = at least one acknowledgement present; distinct by construction")
ASSUMPTIONS = ["R6 decision table: active iff no ack, or snooze > ack, or effective trigger > ack (effective trigger = snooze if snooze > trigger)",
               "for a floating/date trigger without a local zone the only admissible outcomes are LocalTimezoneMissing or a verdict that does not need the comparison",
               "a date trigger is local midnight of that date"]
SOFT_S = {"quick": 8, "thorough": 120}
UTC = timezone.utc
KINDS = ("utc", "zoned", "floating", "date", "zoned-fold", "abs-floating", "abs-utc")
LOCAL = (None, "str", "tzinfo", "foreign-tzinfo")
N = 7


def run(ctx):
    i = 0
    for prov in ("zoneinfo", "pytz"):
        for kind in KINDS:
            for local in LOCAL:
                for tb in (0, 1):
                    for a1 in [None] + list(range(N)):
                        for a2 in [None] + list(range(N)):
                            for s in [None] + list(range(N)):
                                if ctx.mine(i):
                                    ctx.check(("cell", prov, kind, local, tb, a1, a2, s, 0), "lattice", enum=True)
                                i += 1
    ctx.exhaustive["7-point lattice x kinds x local zone x Thunderbird x provider"] = True
    rng = ctx.rng
    while ctx.time_left():
        pick = lambda: rng.choice((None, rng.randrange(-40000, 40000)))
        ctx.check(("cell", rng.choice(("zoneinfo", "pytz")), rng.choice(KINDS), rng.choice(LOCAL), rng.randrange(2),
                   pick(), pick(), pick(), rng.randrange(1, 2000)), "random")


def build(case):
    """-> (event, alarms object, expectations)"""
    import icalendar
    from icalendar import Alarm, Event
    from icalendar.timezone import tzp
    _, prov, kind, local, tb, a1, a2, s, salt = case
    vals.use_provider(prov)
    unit = timedelta(hours=1) if salt == 0 else timedelta(seconds=1)
    base = datetime(2024, 5, 10, 12, 0, 0) + timedelta(minutes=7 * salt)   # no DST transition within the salt range (arithmetic across transitions is C14)
    local_tz = None
    if local == "str":
        local_tz = tzp.timezone("Europe/Berlin")
        local_arg = "Europe/Berlin"
    elif local == "tzinfo":
        local_tz = tzp.timezone("America/New_York")
        local_arg = local_tz
    elif local == "foreign-tzinfo":
        # a tzinfo object of the *other* tz library than the active provider's
        if prov == "pytz":
            import zoneinfo
            local_arg = zoneinfo.ZoneInfo("Europe/Berlin")
        else:
            import pytz
            local_arg = pytz.timezone("Europe/Berlin")
        local_tz = local_arg
    trig_delta = timedelta(minutes=-15)
    if kind == "utc":
        start = vals.attach(base, vals.tzinfo_for("UTC"))
    elif kind == "zoned":
        start = vals.attach(base, tzp.timezone("Europe/Berlin" if (salt + (a1 or 0)) % 2 == 0 else "America/Los_Angeles"))
    elif kind == "zoned-fold":
        # trigger and second alarm inside the hour that is repeated when daylight time ends (first pass, EDT): one lattice step (1 h) later is the
        # same wall-clock time in the second pass - instants have to be compared, not wall clocks
        ny = tzp.timezone("America/New_York")
        naive = datetime(2024, 11, 3, 1, 25) + timedelta(minutes=(7 * salt) % 30)
        start = ny.localize(naive, is_dst=True) if hasattr(ny, "localize") else naive.replace(tzinfo=ny, fold=0)
        if salt:
            unit = timedelta(minutes=1)
    elif kind in ("abs-floating", "abs-utc"):
        start = vals.attach(base, vals.tzinfo_for("UTC"))        # the component's own times do not matter for an absolute trigger
    elif kind == "floating":
        start = base
    else:
        start = base.date()
        trig_delta = timedelta(days=-1)
    norm = (lambda d: d.tzinfo.normalize(d) if isinstance(d, datetime) and hasattr(d.tzinfo, "normalize") else d)   # pytz: elapsed-time arithmetic (S9)
    trigger = R6.add(start, trig_delta, norm)
    if kind == "abs-floating":
        trigger = trigger.replace(tzinfo=None)          # TRIGGER;VALUE=DATE-TIME:<local time>: floating, like a floating start
    # the instant of the trigger, for placing the lattice
    floating = R6.is_date(trigger) or trigger.tzinfo is None
    t_dt = datetime(trigger.year, trigger.month, trigger.day) if R6.is_date(trigger) else trigger
    if floating:
        t_aware = vals.attach(t_dt, local_tz) if local_tz is not None else None
        anchor = (t_aware if t_aware is not None else t_dt.replace(tzinfo=UTC)).astimezone(UTC)
    else:
        t_aware = t_dt
        anchor = t_dt.astimezone(UTC)

    def P(i):
        if i is None:
            return None
        return anchor + (i - 3) * unit if salt == 0 else anchor + i * unit

    ev = Event()
    ev.add("summary", "x")
    ev.DTSTART = start
    al = Alarm()
    al.TRIGGER = trigger if kind in ("abs-floating", "abs-utc") else trig_delta
    if a1 is not None:
        al.ACKNOWLEDGED = P(a1)
    ev.add_component(al)
    al2 = Alarm()
    al2.TRIGGER = timedelta(minutes=30)
    ev.add_component(al2)
    if tb:
        ev.add("X-MOZ-GENERATION", "1")
        ev.DTSTAMP = anchor + timedelta(days=3)     # must be ignored for Thunderbird components
        if a2 is not None:
            ev.X_MOZ_LASTACK = P(a2)
        if s is not None:
            ev.X_MOZ_SNOOZE_TIME = P(s)
    else:
        if a2 is not None:
            ev.DTSTAMP = P(a2)
    alarms = ev.alarms
    if local is not None:
        alarms.set_local_timezone(local_arg)
    if not tb and s is not None:
        alarms.snooze_until(P(s))
    if ((a1 or 0) + 3 * (a2 or 0) + 5 * (s or 0) + salt) % 3 == 1:
        # "only the last call counts": other values first (they would acknowledge and snooze everything), then the ones of this cell -
        # None included, which clears
        junk = anchor + timedelta(days=9)
        alarms.acknowledge_until(junk)
        alarms.snooze_until(junk)
        alarms.acknowledge_until(P(a2))
        alarms.snooze_until(P(s))
    t2 = R6.add(start, timedelta(minutes=30), norm)
    t2_dt = datetime(t2.year, t2.month, t2.day) if R6.is_date(t2) else t2
    t2_aware = (vals.attach(t2_dt, local_tz) if local_tz is not None else None) if (t2_dt.tzinfo is None) else t2_dt
    exp = [
        {"alarm": al, "t_raw": trigger, "t_aware": t_aware, "a1": P(a1), "a2": P(a2), "s": P(s)},
        {"alarm": al2, "t_raw": t2, "t_aware": t2_aware, "a1": None, "a2": P(a2), "s": P(s)},
    ]
    return ev, alarms, exp


def outcome(fn):
    try:
        return ("value", fn())
    except Exception as e:
        return ("raise", type(e).__name__, str(e)[:120])


def same_time(got, want):
    if isinstance(got, datetime) and isinstance(want, datetime):
        if (got.tzinfo is None) != (want.tzinfo is None):
            return False
        if got.tzinfo is None:
            return got == want
        return got == want and got.utcoffset() == want.utcoffset()
    return type(got) is type(want) and got == want


def evaluate(ctx, case, report=True):
    """Run one cell; returns list of is_active outcomes per alarm (or None when a failure was reported)."""
    ev, alarms, exp = build(case)
    times = outcome(lambda: alarms.times)
    if times[0] == "raise":
        if report:
            ctx.fail("times-raises", observed=times, expected="two alarm times")
        return None
    times = times[1]
    if len(times) != 2:
        if report:
            ctx.fail("times-count", observed=len(times), expected=2)
        return None
    by_alarm = {id(e["alarm"]): e for e in exp}
    acts = []
    for at in times:
        e = by_alarm.get(id(at.alarm))
        if e is None:
            if report:
                ctx.fail("times-foreign-alarm", observed=repr(at.alarm), expected="one of the event's alarms")
            return None
        ack = R6.acknowledged(e["a1"], e["a2"])
        got_ack = outcome(lambda: at.acknowledged)
        if report and (got_ack[0] != "value" or (got_ack[1] is None) != (ack is None) or (ack is not None and got_ack[1] != ack)):
            ctx.fail("acknowledged", observed=got_ack, expected=ack)
            return None
        floating_unresolved = e["t_aware"] is None
        # reported trigger
        got_trig = outcome(lambda: at.trigger)
        if floating_unresolved:
            if e["s"] is None:
                want_trig = e["t_raw"]
                ok = got_trig[0] == "value" and same_time(got_trig[1], want_trig)
            else:
                ok = got_trig[0] == "raise" and got_trig[1] == "LocalTimezoneMissing"
                want_trig = "LocalTimezoneMissing (snooze cannot be compared with a floating time)"
            if report and not ok:
                ctx.fail("reported-trigger", observed=got_trig, expected=want_trig)
                return None
        else:
            want_trig = R6.effective_trigger(e["t_aware"], e["s"])
            if report and not (got_trig[0] == "value" and isinstance(got_trig[1], datetime) and got_trig[1].tzinfo is not None
                               and got_trig[1] == want_trig
                               and (want_trig is e["s"] or same_time(got_trig[1], want_trig))):
                ctx.fail("reported-trigger", observed=(got_trig, getattr(got_trig[1], "utcoffset", lambda: None)() if got_trig[0] == "value" else None),
                         expected=(want_trig, want_trig.utcoffset()))
                return None
        # activity
        got = outcome(at.is_active)
        if floating_unresolved:
            if ack is None or (e["s"] is not None and e["s"] > ack):
                allowed = [("value", True), "LocalTimezoneMissing"]
            else:
                allowed = ["LocalTimezoneMissing"]
            ok = (got[0] == "value" and ("value", got[1]) in allowed) or (got[0] == "raise" and got[1] in allowed)
            if report and not ok:
                ctx.fail("is-active-floating", observed=got, expected=allowed)
                return None
        else:
            want = R6.is_active(e["t_aware"], e["a1"], e["a2"], e["s"])
            if report and got != ("value", want):
                ctx.fail("is-active", observed=got, expected=want)
                return None
        acts.append(got)
    # active is a sub-list of times
    active = outcome(lambda: alarms.active)
    if all(a[0] == "value" for a in acts):
        if active[0] != "value":
            if report:
                ctx.fail("active-raises", observed=active, expected="list")
            return None
        want_ids = [id(at.alarm) for at, a in zip(times, acts) if a[1]]
        got_ids = [id(at.alarm) for at in active[1]]
        if report and got_ids != want_ids:
            ctx.fail("active-sublist", observed=len(got_ids), expected=len(want_ids))
            return None
    else:
        if report and not (active[0] == "raise" and active[1] == "LocalTimezoneMissing"):
            ctx.fail("active-error", observed=active, expected="LocalTimezoneMissing")
            return None
    ctx.count("cells-decided")
    return acts


def check_case(ctx, case):
    _, prov, kind, local, tb, a1, a2, s, salt = case
    ctx.nontrivial(a1 is not None or a2 is not None)
    acts = evaluate(ctx, case)
    if acts is None or salt != 0:
        return
    # monotonicity: move one acknowledgement one lattice step later, nothing else changes
    for which, v in (("a1", a1), ("a2", a2)):
        if v is None or v >= N - 1:
            continue
        later = list(case)
        later[5 if which == "a1" else 6] = v + 1
        acts2 = evaluate(ctx, tuple(later), report=False)
        if acts2 is None:
            continue
        for j, (before, after) in enumerate(zip(acts, acts2)):
            if before == ("value", False) and after == ("value", True):
                ctx.fail("monotonicity", observed=(which, "later ack activates alarm", j), expected="an inactive alarm stays inactive")
        ctx.count("monotonicity-pairs")


def classify(case, kind, observed, expected):
    return None


def inconclusive(m, tier):
    c = m["counters"]
    out = []
    if not c.get("cells-decided"):
        out.append("no lattice cell decided")
    if not c.get("monotonicity-pairs"):
        out.append("no monotonicity pair evaluated")
    return out


TECHNIQUE = "exhaustive ordering lattice checked against the RFC 9074 decision table (R6), with pairwise monotonicity"
LEVEL_TEXT = ("All 512 orderings (with equalities) of the two acknowledgements and the snooze around the trigger are built as real components for every "
              "trigger kind, local-zone setting, Thunderbird flag and provider; acknowledged, reported trigger, is_active, active and the admissible error "
              "are compared with a 12-line decision table, and each acknowledgement is moved later to check monotonicity. Complete for the lattice. A third of the cells set their values through acknowledge_until/snooze_until after earlier calls with other values; one trigger kind lies in the repeated hour at the end of daylight time.")
LEVEL_NOTE = "trusts vmon/refs/alarms.py; instants between lattice points are only sampled"
