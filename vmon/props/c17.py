"""C17 Components and parameter maps are dicts keyed by upper-cased names."""
import itertools
from collections import OrderedDict

from ..refs.caseless import Model, K

ID = "C17"
RULE = ("histories of mapping operations (construction from mapping/pairs/kwargs incl. colliding case variants, [] get/set/del, in, get, pop(+-default), "
        "popitem, setdefault, update(mapping - dict, MappingProxyType, UserDict, ChainMap, OrderedDict - /pairs/kwargs), copy, fromkeys, |, |=, reflected |, ==/!=, keys/values/items, has_key, sorted_keys) on "
        "CaselessDict, Parameters, Component, Event, Calendar, vRecur; exhaustive over a reduced operation alphabet up to length 3 (thorough 4), seeded "
        "random histories up to length 40 over a key set with case variants, bytes keys (ASCII and UTF-8 with cased non-ASCII letters) and sharp-s/dotless-i; after every operation the result, the "
        "exception kind, the stored keys (upper-case str), the item order and equality with equal-content mappings are compared with the model; "
        "non-trivial = the history uses two spellings of one key; distinct by construction / case hash")
ASSUMPTIONS = ["R7: dict keyed by to_str(key).upper(); pop(missing) returns None as declared (S2)",
               "equality is asserted against mappings whose keys are already upper-case and against other caseless maps, not against plain dicts with lower-case keys",
               "Component == mapping is only required not to raise (C17 vs C20 disagree)"]
SOFT_S = {"quick": 10, "thorough": 200}

KEYS = ["a", "A", "b", "B", "Ab", "aB", "AB", b"a", b"B", "ß", "ss", "SS", "ı", "i", "x-y", "X-Y",
        # bytes keys with cased letters outside ASCII (bytes.upper() leaves them alone, str.upper() does not) next to their str spellings
        "x-grö".encode("utf-8"), "x-grö", "X-GRÖ", "X-GRÖ".encode("utf-8"), "ÿ".encode("utf-8"), "Ÿ", "straße".encode("utf-8"), "STRASSE",
        # names that are in some class's canonical_order (Event, Calendar, Timezone, vRecur), in any case
        "summary", "DTSTART", "exdate", "Rdate", "uid", "version", "PRODID", "method", "tzid", "freq", "UNTIL", "wkst", "byday", "sequence", "dtend"]
SMALL_KEYS = ["a", "A", "b"]
CLASSES = ["CaselessDict", "Parameters", "Component", "Event", "Calendar", "vRecur"]


def get_class(name):
    import icalendar
    from icalendar.caselessdict import CaselessDict
    from icalendar.parser import Parameters
    return {"CaselessDict": CaselessDict, "Parameters": Parameters, "Component": icalendar.cal.Component,
            "Event": icalendar.Event, "Calendar": icalendar.Calendar, "vRecur": icalendar.vRecur}[name]


def small_ops():
    ops = []
    for k in SMALL_KEYS:
        for v in (1, 2):
            ops.append(("set", k, v))
            ops.append(("setdefault", k, v))
        ops += [("get", k), ("del", k), ("in", k), ("pop", k), ("get1", k)]
    ops += [("popitem",), ("update_map", (("a", 7), ("B", 8))), ("update_pairs", (("A", 5), ("a", 6))), ("copy",),
            ("or", (("b", 3),)), ("ior", (("B", 4), ("a", 4))), ("ror", (("A", 9), ("c", 9)))]
    return ops


def rand_op(rng):
    k = rng.choice(KEYS)
    v = rng.choice((rng.randrange(100), rng.randrange(100), None))
    r = rng.randrange(24)
    pairs = tuple((rng.choice(KEYS), rng.randrange(100)) for _ in range(rng.randrange(0, 4)))
    if r < 4:
        return ("set", k, v)
    return [("get", k), ("del", k), ("in", k), ("has_key", k), ("getd", k, v), ("get1", k), ("pop", k), ("popd", k, v),
            ("popitem",), ("setdefault", k, v), ("update_map", pairs), ("update_pairs", pairs),
            ("update_kw", tuple((kk, vv) for kk, vv in pairs if isinstance(kk, str) and kk.isidentifier())),
            ("copy",), ("or", pairs), ("ior", pairs), ("ror", pairs), ("len",), ("keys",), ("values",),
            ("del", k), ("set", k, v), ("clear",), ("pop", k)][r - 4 if r >= 4 else 0]


def run(ctx):
    ops = small_ops()
    L = 3 if ctx.quick else 4
    inits = [("empty",), ("map", (("a", 1), ("B", 2))), ("pairs", (("a", 1), ("A", 2), ("b", 3)))]
    i = 0
    for L_ in range(1, L + 1):
        for hist in itertools.product(ops, repeat=L_):
            if ctx.mine(i):
                cls = CLASSES[(i // ctx.nshards) % len(CLASSES)]
                init = inits[(i // (ctx.nshards * len(CLASSES))) % len(inits)]
                ctx.check((cls, init, hist), "exhaustive", enum=True)
            i += 1
    ctx.exhaustive[f"reduced alphabet, length<={L} (class and initial state rotate)"] = True
    rng = ctx.rng
    while ctx.time_left():
        cls = rng.choice(CLASSES)
        kind = rng.choice(("empty", "map", "pairs", "kw", "fromkeys"))
        pairs = tuple((rng.choice(KEYS), rng.randrange(100)) for _ in range(rng.randrange(0, 6)))
        if kind == "kw":
            pairs = tuple((k, v) for k, v in pairs if isinstance(k, str) and k.isidentifier())
        init = (kind, pairs) if kind != "empty" else ("empty",)
        hist = tuple(rand_op(rng) for _ in range(rng.randrange(1, 41)))
        ctx.check((cls, init, hist), "random")


def _kv(name, v):
    """vRecur wraps scalar keyword values into lists at construction only."""
    return v


def build(cls, clsname, init):
    kind = init[0]
    if kind == "empty":
        return cls(), Model()
    pairs = list(init[1])
    if kind == "map":
        src = {}
        for k, v in pairs:
            src[k] = v
        return cls(src), Model(src.items())
    if kind == "pairs":
        return cls(pairs), Model(pairs)
    if kind == "kw":
        kw = dict(pairs)
        m = Model(kw.items())
        if clsname == "vRecur":
            m = Model((k, [v]) for k, v in kw.items())
        return cls(**kw), m
    if kind == "fromkeys":
        keys = [k for k, _ in pairs]
        return cls.fromkeys(keys, 0), Model((k, 0) for k in keys)
    raise ValueError(kind)


def do(d, op, cls):
    """Apply op to the real object -> ("ok", value) | ("raise", type name), possibly a replacement object"""
    name = op[0]
    try:
        if name == "set":
            d[op[1]] = op[2]
            return ("ok", None), d
        if name == "get":
            return ("ok", d[op[1]]), d
        if name == "del":
            del d[op[1]]
            return ("ok", None), d
        if name == "in":
            return ("ok", op[1] in d), d
        if name == "has_key":
            return ("ok", d.has_key(op[1])), d
        if name == "getd":
            return ("ok", d.get(op[1], op[2])), d
        if name == "get1":
            return ("ok", d.get(op[1])), d
        if name == "pop":
            return ("ok", d.pop(op[1])), d
        if name == "popd":
            return ("ok", d.pop(op[1], op[2])), d
        if name == "popitem":
            return ("ok", d.popitem()), d
        if name == "setdefault":
            return ("ok", d.setdefault(op[1], op[2])), d
        if name == "update_map":
            src = {}
            for k, v in op[1]:
                src[k] = v
            # any mapping will do as the source, not only a dict
            import collections, types
            wrap = (lambda x: x, types.MappingProxyType, collections.UserDict, collections.ChainMap, OrderedDict)[(len(src) + sum(v for v in src.values() if isinstance(v, int))) % 5]
            d.update(wrap(src))
            return ("ok", None), d
        if name == "update_pairs":
            d.update(list(op[1]))
            return ("ok", None), d
        if name == "update_kw":
            d.update(**dict(op[1]))
            return ("ok", None), d
        if name == "copy":
            c = d.copy()
            if type(c) is not type(d):
                return ("ok", ("wrong copy type", type(c).__name__)), d
            return ("ok", list(c.items())), d
        if name == "or":
            src = {}
            for k, v in op[1]:
                src[k] = v
            r = d | src
            if type(r) is not type(d):
                return ("ok", ("wrong | type", type(r).__name__)), d
            return ("ok", list(r.items())), d
        if name == "ror":
            src = {}
            for k, v in op[1]:
                src[k] = v
            r = src | d
            if type(r) is not type(d):
                return ("ok", ("wrong reflected | type", type(r).__name__)), d
            return ("ok", list(r.items())), d
        if name == "ior":
            src = {}
            for k, v in op[1]:
                src[k] = v
            d |= src
            return ("ok", None), d
        if name == "len":
            return ("ok", len(d)), d
        if name == "keys":
            return ("ok", list(d.keys())), d
        if name == "values":
            return ("ok", list(d.values())), d
        if name == "items":
            return ("ok", list(d.items())), d
        if name == "clear":
            d.clear()
            return ("ok", None), d
        raise ValueError(name)
    except KeyError:
        return ("raise", "KeyError"), d


def _norm_model_result(op, res, m):
    """Model results for update-style ops given as pairs: a mapping source collapses duplicate raw keys first."""
    return res


def check_case(ctx, case):
    clsname, init, hist = case
    cls = get_class(clsname)
    d, m = build(cls, clsname, init)
    spellings = {}
    for op in (("init",) + tuple(k for k, _ in (init[1] if len(init) > 1 else ())),) + tuple(hist):
        for a in op[1:]:
            if isinstance(a, (str, bytes)):
                spellings.setdefault(K(a), set()).add(a)
            elif isinstance(a, tuple):
                for kv in a:
                    if isinstance(kv, tuple) and kv and isinstance(kv[0], (str, bytes)):
                        spellings.setdefault(K(kv[0]), set()).add(kv[0])
    ctx.nontrivial(any(len(s) > 1 for s in spellings.values()))
    if not quiescent(ctx, d, m, cls, ("init",) + init):
        return
    for step, op in enumerate(hist):
        mop = op
        if op[0] in ("update_map", "update_kw", "or", "ror", "ior"):
            # a mapping source: duplicate raw keys collapse in the source dict first (same for model and subject)
            src = {}
            for k, v in op[1]:
                src[k] = v
            mop = (op[0], tuple(src.items()))
        want = m.apply(mop)
        got, d = do(d, op, cls)
        if got != want:
            ctx.fail("op-result", observed=(step, op, got), expected=want)
            return
        if not quiescent(ctx, d, m, cls, (step, op)):
            return


def quiescent(ctx, d, m, cls, where):
    raw_keys = list(OrderedDict.keys(d))
    bad = [k for k in raw_keys if not isinstance(k, str) or k != k.upper()]
    if bad:
        ctx.fail("stored-key-not-upper", observed=(where, bad), expected="only upper-case str keys")
        return False
    items = list(d.items())
    want = list(m.d.items())
    if items != want:
        ctx.fail("items-order", observed=(where, items), expected=want)
        return False
    sk = d.sorted_keys()
    wk = m.sorted_keys(getattr(cls, "canonical_order", None))
    if sk != wk:
        ctx.fail("sorted-keys", observed=(where, sk), expected=wk)
        return False
    from icalendar.caselessdict import CaselessDict
    from icalendar.cal import Component
    if not issubclass(cls, Component):
        plain = dict(want)
        od = OrderedDict(want)
        other = CaselessDict((k.lower(), v) for k, v in want)
        rev = list(reversed(want))
        for name, o in (("dict", plain), ("OrderedDict", od), ("CaselessDict(lower keys)", other),
                        # the same content inserted in another order is still the same content
                        ("OrderedDict(reversed)", OrderedDict(rev)), ("CaselessDict(reversed)", CaselessDict(rev)), (cls.__name__ + "(reversed)", cls(rev))):
            if not (d == o) or (d != o):
                ctx.fail("eq-mapping", observed=(where, name, "d == m is False"), expected=True)
                return False
            if not (o == d) or (o != d):
                ctx.fail("eq-mapping-reflected", observed=(where, name, "m == d is False"), expected=True)
                return False
        differ = dict(want)
        differ["ZZ-EXTRA"] = 0
        if d == differ or not (d != differ):
            ctx.fail("eq-mapping-different", observed=(where, "equal to a mapping with an extra key"), expected=False)
            return False
        if want:
            # same size, one key renamed (its value kept, and also with value None): must be unequal, both ways
            k0, v0 = want[-1]
            for newval in (v0, None):
                ren = dict(want[:-1])
                ren[k0 + "-RENAMED"] = newval
                other_c = CaselessDict(ren)
                for o in (ren, other_c):
                    if d == o or o == d or not (d != o):
                        ctx.fail("eq-mapping-different", observed=(where, "equal to a mapping of the same size with a renamed key", k0, newval), expected=False)
                        return False
    else:
        try:
            d == dict(want)
            dict(want) == d
        except Exception as e:
            ctx.fail("eq-component-mapping-raises", observed=(where, f"{type(e).__name__}: {e}"), expected="no exception")
            return False
    if not (d == d):
        ctx.fail("eq-reflexive", observed=where, expected=True)
        return False
    ctx.count("quiescent-checks")
    return True


def inconclusive(m, tier):
    return [] if m["counters"].get("quiescent-checks") else ["no quiescent-point check was evaluated"]


TECHNIQUE = "reference-model monitor (dict keyed by upper-cased name) over exhaustive short and random long mapping-operation histories, invariant checked at every quiescent point"
LEVEL_TEXT = ("Every operation of every generated history is executed on the real class and on a 60-line reference dictionary; result, exception kind, "
              "stored keys, item order, canonical key order and mapping equality are compared after each step. Exhaustive for histories up to the "
              "stated length over the reduced alphabet, sampled for long histories over 16 keys.")
LEVEL_NOTE = "trusts vmon/refs/caseless.py; non-str/bytes keys and invalid UTF-8 byte keys are out of domain"
