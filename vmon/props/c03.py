"""C03 Every typed value codec is its own inverse and emits RFC 5545 value grammar."""
import base64
import math
import struct
from datetime import date, datetime, time, timedelta, timezone

from ..refs import values as R4

ID = "C03"
RULE = ("value side: every date 0001-01-01..9999-12-31 (quick: every 97th + boundaries), every second of the day as TIME and as DATE-TIME on rotating "
        "dates (naive and UTC), every UTC offset -86399..+86399 s (quick: stride 61 + boundaries), durations: every second in +-200000 s and every whole "
        "day +-4000 (quick: strided) plus random to +-1e9 s, integers around 2^31/2^32/2^63/2^64 and random to 2^70, floats from random finite bit patterns "
        "and decimal literals, BOOLEAN, BINARY (payload as text and as UTF-8 octets, also starting with U+FEFF)/URI/CAL-ADDRESS random Unicode, GEO pairs, periods (explicit and by duration; naive, UTC), weekdays x "
        "ordinals +-1..53 x sign forms x case, frequencies x case, months x leap flag; grammar side: generated grammar-valid strings per type decoded and "
        "compared with R4's evaluator, and classified by the combined decoder; non-trivial = every case (each exercises encode+grammar+decode); "
        "distinct by construction for enumerations, by hash for random")
ASSUMPTIONS = ["R4 (vmon/refs/values.py) is the RFC 5545 3.3 grammar", "whole-second values only (the formats carry no fractions)",
               "second 60 (leap second) is not generated on the grammar side: datetime cannot represent it, the RFC value is left open"]
SOFT_S = {"quick": 12, "thorough": 300}

UTC = timezone.utc


def text_of(x):
    return x.decode("utf-8") if isinstance(x, bytes) else x


# ---------------------------------------------------------------- enumerations
def gen(ctx):
    q = ctx.quick
    i = 0
    # dates
    d0 = date(1, 1, 1).toordinal()
    d1 = date(9999, 12, 31).toordinal()
    step = 97 if q else 1
    for o in range(d0, d1 + 1, step):
        if ctx.mine(i):
            yield "date", ("date", o)
        i += 1
    for o in (d0, d0 + 1, d1 - 1, d1, date(999, 12, 31).toordinal(), date(1000, 1, 1).toordinal(), date(99, 1, 1).toordinal(),
              date(1900, 2, 28).toordinal(), date(2000, 2, 29).toordinal(), date(1582, 10, 15).toordinal(), date(9, 9, 9).toordinal()):
        if ctx.mine(i):
            yield "date", ("date", o)
        i += 1
    # every second of the day: TIME, and DATE-TIME on a rotating date, naive/UTC
    sstep = 7 if q else 1
    for s in range(0, 86400, sstep):
        if ctx.mine(i):
            yield "time", ("time", s, 0)
            yield "time", ("time", s, 1)
            o = d0 + (s * 42283) % (d1 - d0)
            yield "datetime", ("datetime", o, s, s % 2)
        i += 1
    for o in (d0, d1, date(800, 2, 29).toordinal(), date(999, 12, 31).toordinal(), date(1000, 1, 1).toordinal()):
        for s in (0, 1, 59, 60, 3599, 3600, 43200, 86399):
            for utc in (0, 1):
                if ctx.mine(i):
                    yield "datetime", ("datetime", o, s, utc)
                i += 1
    # utc offsets
    ostep = 61 if q else 1
    for s in list(range(-86399, 86400, ostep)) + [-86399, -86340, -3600, -61, -60, -59, -1, 0, 1, 59, 60, 61, 3600, 86340, 86399]:
        if ctx.mine(i):
            yield "utcoffset", ("utcoffset", s)
        i += 1
    # durations
    dstep = 37 if q else 1
    for s in list(range(-200000, 200001, dstep)) + [-86401, -86400, -86399, -3661, -3601, -3600, -61, -60, -1, 0, 1, 59, 60, 61, 3599, 3600,
                                                     3601, 3660, 3661, 86399, 86400, 86401, 90000, 90060, 90061]:
        if ctx.mine(i):
            yield "duration", ("duration", s)
        i += 1
    for d in range(-4000, 4001, 9 if q else 1):
        if ctx.mine(i):
            yield "duration", ("duration", d * 86400)
        i += 1
    # integers at the boundaries
    for b in (7, 8, 15, 16, 31, 32, 53, 63, 64, 70):
        for delta in (-2, -1, 0, 1, 2):
            for sign in (1, -1):
                if ctx.mine(i):
                    yield "int", ("int", sign * (2 ** b + delta))
                i += 1
    for v in range(-300, 301):
        if ctx.mine(i):
            yield "int", ("int", v)
        i += 1
    # weekdays
    for wd in ("SU", "MO", "TU", "WE", "TH", "FR", "SA"):
        for ordn in [None] + list(range(1, 54)):
            for sign in ("", "+", "-"):
                if ordn is None and sign:
                    continue
                for cs in (0, 1, 2):
                    if ctx.mine(i):
                        yield "weekday", ("weekday", sign, ordn, wd, cs)
                    i += 1
    for f in ("SECONDLY", "MINUTELY", "HOURLY", "DAILY", "WEEKLY", "MONTHLY", "YEARLY"):
        for cs in (0, 1, 2):
            if ctx.mine(i):
                yield "frequency", ("frequency", f, cs)
            i += 1
    for mth in range(1, 14):
        for leap in (0, 1):
            for form in ("int", "str"):
                if ctx.mine(i):
                    yield "month", ("month", mth, leap, form)
                i += 1
    for b in ("TRUE", "FALSE", "true", "false", "True", "fAlSe"):
        if ctx.mine(i):
            yield "boolean", ("boolean", b)
        i += 1
    for lit in ("0", "1", "-1", "+1", "1.5", "-3.14", "1000000.0000001", "0.000001", "123456789012345678", "0.1", "37.386013", "-122.082932",
                "00012.500", "+0.0", "-0.0", "99999999999999999999999.5", "0.00000000000000000001"):
        if ctx.mine(i):
            yield "float-grammar", ("float-grammar", lit)
        i += 1
    for v in (0.0, -0.0, 1.0, 1e15, 1e16, 1e17, 1e-4, 1e-5, 1e-7, 123456789.123456789, 5e-324, 1.7976931348623157e308, 2.5e-07, 1.2e-05,
              0.1 + 0.2, 1 / 3, 1e22, 1e21, 999999999999999.9, 37.386013, -122.082932):
        if ctx.mine(i):
            yield "float", ("float", struct.unpack("<Q", struct.pack("<d", v))[0])
        i += 1


def rand_unicode(rng, n):
    out = []
    for _ in range(n):
        r = rng.randrange(6)
        if r < 3:
            out.append(chr(rng.randrange(0x20, 0x7F)))
        elif r == 3:
            out.append(chr(rng.randrange(0xA0, 0x800)))
        elif r == 4:
            out.append(chr(rng.choice((rng.randrange(0x800, 0xD800), rng.randrange(0xE000, 0xFFFE)))))
        else:
            out.append(chr(rng.randrange(0x10000, 0x110000)))
    return "".join(out)


def rand_duration_text(rng):
    sign = rng.choice(("", "", "+", "-"))
    form = rng.randrange(4)
    n = lambda: str(rng.choice((0, 1, 7, 59, 60, 61, 100, rng.randrange(0, 100000))))
    if form == 0:
        return f"{sign}P{n()}W"
    tparts = rng.choice(("H", "HM", "HMS", "M", "MS", "S"))
    t = "T" + "".join(n() + c for c in tparts)
    if form == 1:
        return f"{sign}P{n()}D"
    if form == 2:
        return f"{sign}P{n()}D{t}"
    return f"{sign}P{t}"


def rand_dt_text(rng):
    y, mo = rng.randrange(1, 10000), rng.randrange(1, 13)
    dmax = (date(y + (mo == 12), mo % 12 + 1, 1) - timedelta(days=1)).day if y < 9999 or mo < 12 else 31
    d = rng.randrange(1, dmax + 1)
    return f"{y:04}{mo:02}{d:02}T{rng.randrange(24):02}{rng.randrange(60):02}{rng.randrange(60):02}" + rng.choice(("", "Z"))


def run(ctx):
    for stream, case in gen(ctx):
        ctx.check(case, stream, enum=True)
    ctx.exhaustive["enumerated value domains" + (" (strided)" if ctx.quick else "")] = not ctx.quick
    rng = ctx.rng
    n = 0
    while ctx.time_left():
        n += 1
        r = n % 14
        if r == 0:
            ctx.check(("duration", rng.randrange(-10 ** 9, 10 ** 9)), "random-duration")
        elif r == 1:
            ctx.check(("int", rng.randrange(-2 ** 70, 2 ** 70)), "random-int")
        elif r == 2:
            while True:
                bits = rng.getrandbits(64)
                x = struct.unpack("<d", struct.pack("<Q", bits))[0]
                if math.isfinite(x):
                    break
            ctx.check(("float", bits), "random-float")
        elif r == 3:
            ctx.check(("float", struct.unpack("<Q", struct.pack("<d", round(rng.uniform(-1e6, 1e6), rng.randrange(0, 9))))[0]), "random-float")
        elif r == 4:
            payload = rng.choice(("", "", "", "\ufeff", "\ufeff\ufeff")) + rand_unicode(rng, rng.randrange(0, 60))
            if rng.randrange(25) == 0:
                payload = payload + "x" * rng.randrange(2000, 9000) + rand_unicode(rng, 5)        # several KiB: encoders that work in blocks
            ctx.check(("binary", payload, rng.randrange(2)), "random-binary")
        elif r == 5:
            ctx.check((rng.choice(("uri", "caladdress")), rng.choice(("mailto:", "http://", "urn:", "")) + rand_unicode(rng, rng.randrange(0, 40))), "random-uri")
        elif r == 6:
            b = lambda v: struct.unpack("<Q", struct.pack("<d", v))[0]
            ctx.check(("geo", b(round(rng.uniform(-90, 90), rng.randrange(0, 8))), b(round(rng.uniform(-180, 180), rng.randrange(0, 8)))), "random-geo")
        elif r == 7:
            o = rng.randrange(date(1, 1, 2).toordinal(), date(9999, 12, 1).toordinal())
            ctx.check(("period", o, rng.randrange(86400), rng.randrange(2), rng.choice(("end", "dur")), rng.randrange(0, 10 ** rng.randrange(1, 8))), "random-period")
        elif r == 8:
            ctx.check(("duration-grammar", rand_duration_text(rng)), "grammar-duration")
        elif r == 9:
            t = rand_dt_text(rng)
            ctx.check(("datetime-grammar", t), "grammar-datetime")
            ctx.check(("date-grammar", t[:8]), "grammar-date")
        elif r == 10:
            t = f"{rng.randrange(24):02}{rng.randrange(60):02}{rng.randrange(60):02}" + rng.choice(("", "Z"))
            ctx.check(("time-grammar", t), "grammar-time")
        elif r == 11:
            t = rng.choice("+-") + f"{rng.randrange(24):02}{rng.randrange(60):02}" + rng.choice(("", f"{rng.randrange(60):02}"))
            if t not in ("-0000", "-000000"):
                ctx.check(("utcoffset-grammar", t), "grammar-utcoffset")
        elif r == 12:
            a = rand_dt_text(rng)
            if rng.randrange(2):
                bt = rand_duration_text(rng).lstrip("-")      # "+" is part of the dur-value grammar, a negative duration is not a period
            else:
                bt = rand_dt_text(rng)
                bt = bt.rstrip("Z") + ("Z" if a.endswith("Z") else "")
            ctx.check(("period-grammar", a + "/" + bt), "grammar-period")
        else:
            t = rng.choice(("", "+", "-")) + str(rng.randrange(10 ** rng.randrange(1, 25)))
            ctx.check(("int-grammar", t), "grammar-int")
            ctx.check(("float-grammar", t + rng.choice(("", "." + str(rng.randrange(10 ** rng.randrange(1, 12))).zfill(rng.randrange(1, 5))))), "grammar-float")


def _case(s, cs):
    return s if cs == 0 else s.lower() if cs == 1 else s.capitalize()


def check_case(ctx, case):
    import icalendar.prop as P
    ctx.nontrivial(True)
    kind = case[0]
    fail = ctx.fail

    def grammar(rx, text, what):
        ok = rx(text) if callable(rx) else R4.matches(rx, text)
        if not ok:
            fail("grammar", observed=text, expected=f"RFC 5545 {what}")
        return ok

    if kind == "date":
        d = date.fromordinal(case[1])
        t = text_of(P.vDate(d).to_ical())
        grammar(R4.DATE, t, "DATE")
        if P.vDate.from_ical(t) != d:
            fail("inverse", observed=(t, P.vDate.from_ical(t)), expected=d)
        t2 = text_of(P.vDDDTypes(d).to_ical())
        back = P.vDDDTypes.from_ical(t2)
        if t2 != t or type(back) is not date or back != d:
            fail("combined-decoder", observed=(t2, back), expected=d)
    elif kind == "time":
        s = case[1]
        utc = case[2] if len(case) > 2 else 0
        v = time(s // 3600, s % 3600 // 60, s % 60, tzinfo=UTC if utc else None)
        t = text_of(P.vTime(v).to_ical())
        grammar(R4.TIME, t, "TIME")
        if bool(utc) != t.endswith("Z"):
            fail("grammar", observed=t, expected="Z suffix iff UTC")
        back0 = P.vTime.from_ical(t)
        if not R4.same_instant_and_awareness(back0, v) or back0.replace(tzinfo=None) != v.replace(tzinfo=None):
            fail("inverse", observed=(t, back0), expected=v)
        back = P.vDDDTypes.from_ical(text_of(P.vDDDTypes(v).to_ical()))
        if type(back) is not time or not R4.same_instant_and_awareness(back, v):
            fail("combined-decoder", observed=back, expected=v)
    elif kind == "datetime":
        _, o, s, utc = case
        d = date.fromordinal(o)
        v = datetime(d.year, d.month, d.day, s // 3600, s % 3600 // 60, s % 60, tzinfo=UTC if utc else None)
        t = text_of(P.vDatetime(v).to_ical())
        grammar(R4.DATETIME, t, "DATE-TIME")
        if utc != t.endswith("Z"):
            fail("grammar", observed=t, expected="Z suffix iff UTC")
        back = P.vDatetime.from_ical(t)
        if not R4.same_instant_and_awareness(back, v) or (back.replace(tzinfo=None) != v.replace(tzinfo=None)):
            fail("inverse", observed=(t, back), expected=v)
        back2 = P.vDDDTypes.from_ical(text_of(P.vDDDTypes(v).to_ical()))
        if type(back2) is not datetime or not R4.same_instant_and_awareness(back2, v):
            fail("combined-decoder", observed=back2, expected=v)
    elif kind == "utcoffset":
        v = timedelta(seconds=case[1])
        t = text_of(P.vUTCOffset(v).to_ical())
        grammar(R4.UTC_OFFSET, t, "UTC-OFFSET")
        if t in ("-0000", "-000000"):
            fail("grammar", observed=t, expected="-0000 is not allowed")
        back = P.vUTCOffset.from_ical(t)
        if back != v:
            fail("inverse", observed=(t, back), expected=v)
    elif kind == "duration":
        v = timedelta(seconds=case[1])
        t = text_of(P.vDuration(v).to_ical())
        grammar(R4.DURATION, t, "DURATION")
        back = P.vDuration.from_ical(t)
        if back != v:
            fail("inverse", observed=(t, back), expected=v)
        back2 = P.vDDDTypes.from_ical(text_of(P.vDDDTypes(v).to_ical()))
        if type(back2) is not timedelta or back2 != v:
            fail("combined-decoder", observed=back2, expected=v)
    elif kind == "int":
        v = case[1]
        t = text_of(P.vInt(v).to_ical())
        grammar(R4.INTEGER, t, "INTEGER")
        back = P.vInt.from_ical(t)
        if back != v or int(t) != v:
            fail("inverse", observed=(t, back), expected=v)
    elif kind == "float":
        v = struct.unpack("<d", struct.pack("<Q", case[1]))[0]
        t = text_of(P.vFloat(v).to_ical())
        grammar(R4.FLOAT, t, "FLOAT")
        back = P.vFloat.from_ical(t)
        if back != v or math.copysign(1, back) != math.copysign(1, v):
            fail("inverse", observed=(t, back), expected=v)
    elif kind == "geo":
        lat = struct.unpack("<d", struct.pack("<Q", case[1]))[0]
        lon = struct.unpack("<d", struct.pack("<Q", case[2]))[0]
        t = text_of(P.vGeo((lat, lon)).to_ical())
        grammar(R4.is_geo, t, "GEO float;float")
        back = P.vGeo.from_ical(t)
        if tuple(back) != (lat, lon):
            fail("inverse", observed=(t, back), expected=(lat, lon))
    elif kind == "boolean":
        t = case[1]
        want = t.upper() == "TRUE"
        got = P.vBoolean.from_ical(t)
        if bool(got) is not want:
            fail("grammar-decode", observed=got, expected=want)
        enc = text_of(P.vBoolean(want).to_ical())
        grammar(R4.BOOLEAN, enc, "BOOLEAN")
        if (enc == "TRUE") is not want or bool(P.vBoolean.from_ical(enc)) is not want:
            fail("inverse", observed=enc, expected=want)
    elif kind == "binary":
        s = case[1]
        # the payload is handed over as text or (third element) as the UTF-8 octets of that text
        t = text_of(P.vBinary(s.encode("utf-8") if len(case) > 2 and case[2] else s).to_ical())
        grammar(R4.BINARY, t, "BINARY base64")
        if base64.b64decode(t) != s.encode("utf-8"):
            fail("encoded-meaning", observed=t, expected=base64.b64encode(s.encode()).decode())
        back = P.vBinary.from_ical(t)
        if back != s.encode("utf-8"):
            fail("inverse", observed=back, expected=s.encode("utf-8"))
    elif kind in ("uri", "caladdress"):
        cls = P.vUri if kind == "uri" else P.vCalAddress
        s = case[1]
        t = text_of(cls(s).to_ical())
        if t != s:
            fail("encoded-meaning", observed=t, expected=s)
        back = cls.from_ical(t)
        if str(back) != s or type(back) is not cls:
            fail("inverse", observed=back, expected=s)
    elif kind == "period":
        _, o, s, utc, form, span = case
        d = date.fromordinal(o)
        start = datetime(d.year, d.month, d.day, s // 3600, s % 3600 // 60, s % 60, tzinfo=UTC if utc else None)
        try:
            end = start + timedelta(seconds=span)
        except OverflowError:
            return
        v = (start, end) if form == "end" else (start, timedelta(seconds=span))
        per = P.vPeriod(v)
        t = text_of(per.to_ical())
        grammar(R4.is_period, t, "PERIOD")
        back = P.vPeriod.from_ical(t)
        ok = (isinstance(back, tuple) and len(back) == 2 and R4.same_instant_and_awareness(back[0], v[0])
              and type(back[1]) is type(v[1]) and (R4.same_instant_and_awareness(back[1], v[1]) if form == "end" else back[1] == v[1]))
        if not ok:
            fail("inverse", observed=(t, back), expected=v)
        back2 = P.vDDDTypes.from_ical(t)
        if back2 != back:
            fail("combined-decoder", observed=back2, expected=back)
    elif kind == "weekday":
        _, sign, ordn, wd, cs = case
        text = _case(f"{sign}{ordn if ordn is not None else ''}{wd}", cs)
        w = P.vWeekday.from_ical(text)
        enc = text_of(w.to_ical())
        grammar(R4.WEEKDAYNUM, enc, "weekdaynum")
        want_rel = None if ordn is None else (-ordn if sign == "-" else ordn)
        if enc != text.upper() or w.weekday.upper() != wd or w.relative != want_rel:
            fail("grammar-decode", observed=(enc, w.weekday, w.relative), expected=(text.upper(), wd, want_rel))
        w2 = P.vWeekday(text)
        if text_of(w2.to_ical()) != text.upper() or w2.relative != want_rel:
            fail("inverse", observed=(text_of(w2.to_ical()), w2.relative), expected=(text.upper(), want_rel))
    elif kind == "frequency":
        text = _case(case[1], case[2])
        f = P.vFrequency.from_ical(text)
        enc = text_of(P.vFrequency(text).to_ical())
        grammar(R4.FREQ, enc, "freq")
        if str(f) != case[1] or enc != case[1]:
            fail("grammar-decode", observed=(str(f), enc), expected=case[1])
    elif kind == "month":
        _, mth, leap, form = case
        if form == "int" and leap:
            return
        src = mth if form == "int" else f"{mth}{'L' if leap else ''}"
        m = P.vMonth(src)
        enc = text_of(m.to_ical())
        if enc != f"{mth}{'L' if leap else ''}" or int(m) != mth or bool(m.leap) != bool(leap):
            fail("inverse", observed=(enc, int(m), m.leap), expected=(mth, bool(leap)))
        back = P.vMonth.from_ical(enc)
        if int(back) != mth or bool(back.leap) != bool(leap) or text_of(back.to_ical()) != enc:
            fail("inverse", observed=(int(back), back.leap), expected=(mth, bool(leap)))
    # ---------------- grammar side: text -> value per RFC
    elif kind == "duration-grammar":
        t = case[1]
        if not R4.matches(R4.DURATION, t):
            ctx.count("generator-produced-nongrammar")
            return
        want = R4.eval_duration(t)
        _decode(ctx, P.vDuration.from_ical, t, want, timedelta)
        _decode(ctx, P.vDDDTypes.from_ical, t, want, timedelta, "combined-decoder")
    elif kind == "datetime-grammar":
        t = case[1]
        want = R4.eval_datetime(t)
        _decode(ctx, P.vDatetime.from_ical, t, want, datetime)
        _decode(ctx, P.vDDDTypes.from_ical, t, want, datetime, "combined-decoder")
    elif kind == "date-grammar":
        t = case[1]
        want = R4.eval_date(t)
        _decode(ctx, P.vDate.from_ical, t, want, date)
        _decode(ctx, P.vDDDTypes.from_ical, t, want, date, "combined-decoder")
    elif kind == "time-grammar":
        t = case[1]
        want = R4.eval_time(t)
        _decode(ctx, P.vTime.from_ical, t, want, time)
        _decode(ctx, P.vDDDTypes.from_ical, t, want, time, "combined-decoder")
    elif kind == "utcoffset-grammar":
        t = case[1]
        _decode(ctx, P.vUTCOffset.from_ical, t, R4.eval_utc_offset(t), timedelta)
    elif kind == "period-grammar":
        t = case[1]
        a, b = t.split("/")
        isdur = b.lstrip("+").startswith("P")
        want = (R4.eval_datetime(a), R4.eval_duration(b) if isdur else R4.eval_datetime(b))
        if not isdur and want[1] < want[0]:
            return      # "the start MUST be before the end": not grammar-valid
        if isdur:
            try:
                want[0] + want[1]
            except OverflowError:
                return  # the end of the period lies outside datetime's range: no Python value to compare with
        for fn, k in ((P.vPeriod.from_ical, "grammar-decode"), (P.vDDDTypes.from_ical, "combined-decoder")):
            try:
                got = fn(t)
            except ValueError as e:
                fail(k, observed=f"ValueError: {e}", expected=want)
                continue
            if not (isinstance(got, tuple) and len(got) == 2 and R4.same_instant_and_awareness(got[0], want[0])
                    and type(got[1]) is type(want[1]) and (got[1] == want[1])
                    and (not isinstance(want[1], datetime) or R4.same_instant_and_awareness(got[1], want[1]))):
                fail(k, observed=got, expected=want)
    elif kind == "int-grammar":
        t = case[1]
        _decode(ctx, P.vInt.from_ical, t, int(t), int)
    elif kind == "float-grammar":
        t = case[1]
        _decode(ctx, P.vFloat.from_ical, t, float(t), float)
    else:
        raise ValueError(kind)


def _decode(ctx, fn, text, want, typ, k="grammar-decode"):
    try:
        got = fn(text)
    except ValueError as e:
        ctx.fail(k, observed=f"ValueError: {e}", expected=want)
        return
    if typ is date and type(got) is not date:
        ok = False
    elif typ in (datetime, time):
        ok = isinstance(got, typ) and R4.same_instant_and_awareness(got, want) and got.replace(tzinfo=None) == want.replace(tzinfo=None)
    else:
        ok = isinstance(got, typ) and got == want
    if not ok:
        ctx.fail(k, observed=(text, got), expected=want)


def classify(case, kind, observed, expected):
    return None


TECHNIQUE = "reference grammar/evaluator (R4) as oracle over exhaustively enumerated value domains and generated grammar-valid strings"
LEVEL_TEXT = ("Each codec is run on its whole finite domain where feasible (all dates, all seconds of the day, all UTC offsets, all durations in +-200000 s) "
              "and on seeded samples elsewhere; encode must match the anchored RFC grammar, decode(encode(x)) must equal x with the same awareness, and "
              "generated grammar-valid strings must decode to the independently evaluated value and be classified as the right type.")
LEVEL_NOTE = "trusts vmon/refs/values.py and CPython's datetime/float; sub-second values, leap seconds and non-finite floats are out of domain"
