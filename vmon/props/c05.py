"""C05 Content-line join/split are inverse; values cannot inject structure."""
import itertools
import sys
from collections import Counter
from datetime import datetime, timezone

from .. import defects
from ..refs import contentline as R2, fold as R3, text as R1
from .c08 import canon, simulate_parts

ID = "C05"
ALPHABET = ["\\", "n", "N", ";", ",", ":", '"', "%", "2", "C", "\r", " ", "a", "="]
RULE = ("(1) join/split: names over RFC tokens x parameter maps (0-2 parameters with values from the alphabet) x values of classes text, uri, cal-address, "
        "inline, integer, date-time, with text/uri/cal-address/inline values exhaustive over the 14-symbol alphabet {\\ n N ; , : \" % 2 C CR SP a =} up to "
        "length 3 (thorough 4): from_parts -> to_ical -> from_ical -> parts must return name, parameters and a value text that decodes to the value, "
        "and an independent tokenizer (R2) must read the same three pieces, also from the line an Event writes after add(name, value, parameters=); (2) injection: a calendar is built with a hostile payload (CR, LF, CRLF, "
        "literal \\n, BEGIN:/END:/property text, quote games, C0/C1 controls, U+2028/9, NUL) placed in each of 16 positions (text, uri, cal-address, RESOURCES, "
        "X- value, category item, inline value, parameter scalar/list/quoted value, ...); the outcome must be refusal, rejection on re-parse, or "
        "exactly the intended multiset of (component path, property name, parameter-name set); non-trivial = the value/payload contains a delimiter, "
        "escape or control character; distinct by construction / case hash")
ASSUMPTIONS = ["any exception while building or serialising counts as 'refused' (its type is C04's business)",
               "a property missing after re-parse is accepted only with an entry in the lenient component's error list",
               "one of the 16 shards runs under python -O (assert statements stripped)"]
SOFT_S = {"quick": 12, "thorough": 240}


def shard_env(tier, k, nshards):
    """the last shard runs the interpreter with -O (assert statements stripped)"""
    return {"PYTHONOPTIMIZE": "1"} if k == nshards - 1 and nshards > 1 else {}


SPECIAL = set('\\;,:"%\r\n=')
NAMES = ["SUMMARY", "X-FOO", "ATTENDEE", "a-b-1", "URL"]
VCLASSES = ("text", "uri", "caladdress", "inline")
PARAM_SETS = [(), (("CN", "x"),), (("X-P", "a;b"), ("ROLE", "c,d"))]

PAYLOADS = [
    "\r\nBEGIN:VEVENT\r\nSUMMARY:injected\r\nEND:VEVENT", "\nATTENDEE:mailto:evil@example.com", "\rX-EVIL:1", "\\nX-EVIL:1", "\\\nX-EVIL:1", "\\\r\nX-EVIL:1",
    "x\r\n X-EVIL:1", "\r\n\tX-EVIL:1", "END:VEVENT\r\nBEGIN:VTODO", "\";X-EVIL=1;Y=\"", "\";X-EVIL=1:evil", "a\":b", "x;X-EVIL=1", "x:X-EVIL", "x,y;X-EVIL=1",
    "\\", "\\;X-EVIL=1", "\\:X-EVIL=1", "a\\", "\\\\", "%3BX-EVIL=1", "%3AX-EVIL", "\x00X-EVIL:1", "\x0bX-EVIL:1", "\x0cX-EVIL:1", "\x1eX-EVIL:1", "\x85X-EVIL:1",
    "\u2028X-EVIL:1", "\u2029X-EVIL:1", "\x7f", "\t", "'", "\u2019;X-EVIL=1", "=", ";", ":", ",", "\"", "\r", "\n", "\r\n", "", " ", "\n ", "\r\n ",
    "BEGIN:VCALENDAR", "\nEND:VCALENDAR\nBEGIN:VCALENDAR\nX:1", "Projector, HDMI cable", "a,b,c", "plain", "\\n\\n", "\ufeffX-EVIL:1", "\ud7ff", "\U0001F600\nX-EVIL:1",
]
POSITIONS = ["summary", "description-vtodo", "url", "attendee", "xprop", "category", "inline", "param-scalar", "param-list", "param-text-prop",
             "cal-prop", "comment-alarm", "param-two", "geo-str", "resources", "nested-alarm-text"]


def strings(maxlen):
    for L in range(0, maxlen + 1):
        for t in itertools.product(ALPHABET, repeat=L):
            yield "".join(t)


def run(ctx):
    L = 3 if ctx.quick else 4
    i = 0
    for s in strings(L):
        for vc in VCLASSES:
            if ctx.mine(i):
                k = i // ctx.nshards
                ctx.check(("join", NAMES[k % len(NAMES)], PARAM_SETS[k % len(PARAM_SETS)], vc, s), "join-alphabet", enum=True)
            i += 1
    for s in strings(2):
        for name in NAMES:
            if ctx.mine(i):
                ctx.check(("join", name, (("CN", s), ("X-Q", ("l", s, "x"))), "text", "v" + s), "join-params", enum=True)
            i += 1
    for v in (0, 1, -1, 2 ** 31, -2 ** 63, 10 ** 30):
        for name in NAMES:
            if ctx.mine(i):
                ctx.check(("join", name, PARAM_SETS[1], "int", v), "join-typed", enum=True)
            i += 1
    for dt in (("dt", 2024, 1, 2, 3, 4, 5, None), ("dt", 2024, 1, 2, 3, 4, 5, "UTC"), ("dt", 1, 1, 1, 0, 0, 0, None), ("dt", 9999, 12, 31, 23, 59, 59, "UTC")):
        for name in NAMES:
            if ctx.mine(i):
                ctx.check(("join", name, PARAM_SETS[2], "datetime", dt), "join-typed", enum=True)
            i += 1
    # long lines: a delimiter, escape or lone CR exactly at and around the fold boundaries must survive join -> fold -> unfold -> split
    for vc in VCLASSES:
        for n in list(range(45, 80)) + list(range(120, 153)):
            for ch in ("\r", "\r\r", " ", "\t", "\\", ";", ":", ",", "\r ", '"'):
                if ctx.mine(i):
                    k = i // ctx.nshards
                    ctx.check(("join", NAMES[k % len(NAMES)], PARAM_SETS[k % len(PARAM_SETS)], vc, "a" * n + ch + "b" * 25), "join-fold-boundary", enum=True)
                i += 1
    ctx.exhaustive[f"join/split alphabet<= {L} x value classes"] = True
    for p in PAYLOADS:
        for pos in POSITIONS:
            for wrap in ("", "pre", "post"):
                if ctx.mine(i):
                    payload = p if not wrap else ("ok" + p if wrap == "pre" else p + "ok")
                    ctx.check(("inject", pos, payload), "inject-payloads", enum=True)
                i += 1
    ctx.exhaustive["payload list x positions x wrapping"] = True
    rng = ctx.rng
    toks = ALPHABET + ["\n", "\r\n", "BEGIN:", "END:", "VEVENT", "X-EVIL", "\x00", "\x1f", "\u2028", "\t"]
    while ctx.time_left():
        s = "".join(rng.choice(toks) for _ in range(rng.randrange(1, 12)))
        if rng.randrange(2):
            ctx.check(("inject", rng.choice(POSITIONS), s), "inject-random")
        else:
            s = s.replace("\n", "")
            ps = ((rng.choice(("CN", "X-Z")), "".join(rng.choice(ALPHABET) for _ in range(rng.randrange(0, 5))).replace('"', "")),)
            ctx.check(("join", rng.choice(NAMES), ps, rng.choice(VCLASSES), s), "join-random")


def make_value(vc, v):
    from icalendar import prop as P
    from .. import vals
    if vc == "text":
        return P.vText(v), P.vText
    if vc == "uri":
        return P.vUri(v), P.vUri
    if vc == "caladdress":
        return P.vCalAddress(v), P.vCalAddress
    if vc == "inline":
        return P.vInline(v), P.vInline
    if vc == "int":
        return P.vInt(v), P.vInt
    if vc == "datetime":
        return P.vDatetime(vals.py(v)), P.vDatetime
    raise ValueError(vc)


def pmap(items):
    d = {}
    for k, v in items:
        d[k] = list(v[1:]) if isinstance(v, tuple) and v and v[0] == "l" else v
    return d


def check_join(ctx, case):
    from icalendar.parser import Contentline, Parameters
    from .. import vals
    _, name, items, vc, v = case
    ctx.nontrivial(isinstance(v, str) and bool(SPECIAL.intersection(v)) or any(SPECIAL.intersection(str(x)) for _, x in items))
    value, cls = make_value(vc, v)
    d = pmap(items)
    if isinstance(v, str) and "\n" in v and vc != "text":
        return
    if vc == "text" and d and (len(str(v)) + len(items)) % 2:
        # parameter values handed over as vText objects (the README's attendee.params['cn'] = vText(...)): written raw like a str
        from icalendar.prop import vText as _vText
        d = {k: ([_vText(y) for y in x] if isinstance(x, list) else _vText(x)) for k, x in d.items()}
    try:
        cl = Contentline.from_parts(name, Parameters(d), value)
    except AssertionError:
        ctx.count("join:refused")
        return
    line = str(cl)
    want_text = value.to_ical()
    want_text = want_text.decode("utf-8") if isinstance(want_text, bytes) else want_text
    want_params = {k.upper(): canon(x) for k, x in d.items()}
    # (a) another conforming parser reads the same three pieces from the emitted line
    try:
        rn, rp, rv = R2.parse(line)
    except R2.R2Error as e:
        ctx.fail("emitted-not-rfc", observed=(line, str(e)), expected="tokenizable content line")
        return
    r_params = {k.upper(): canon([x for x, _ in vs]) for k, vs in rp}
    # dquote replaces DQUOTE by an apostrophe in parameter values: documented, compare on that form
    want_params_emitted = {k: (canon([y.replace('"', "'") for y in x]) if isinstance(x, list) else x.replace('"', "'")) for k, x in want_params.items()}
    if (rn, r_params, rv) != (name, want_params_emitted, want_text):
        ctx.fail("conforming-parser-differs", observed=(line, rn, r_params, rv), expected=(name, want_params_emitted, want_text))
        return
    # (b) split of the folded/unfolded line
    try:
        n2, p2, v2 = Contentline.from_ical(cl.to_ical()).parts()
    except ValueError as e:
        flat = [y for x in d.values() for y in (x if isinstance(x, list) else [x])]
        if any(ord(c) < 32 and c != "\t" or ord(c) == 127 for y in flat for c in y):
            ctx.count("join:param-control-char-rejected")      # RFC parameter values cannot carry control characters
            return
        ctx.fail("split-rejected", observed=(line, str(e)[:160]), expected=(name, want_params_emitted, want_text))
        return
    got_params = {str(k): canon(x) for k, x in p2.items()}
    if (n2, got_params) != (name, want_params_emitted):
        ctx.fail("split-name-params", observed=(line, n2, got_params, v2), expected=(name, want_params_emitted, want_text))
        return
    # value text must decode to the value
    try:
        dec = cls.from_ical(v2)
    except ValueError as e:
        ctx.fail("split-value-undecodable", observed=(line, n2, got_params, v2, str(e)[:100]), expected=want_text)
        return
    if vc == "text":
        ok = str(dec) == R1.norm(v)
    elif vc in ("uri", "caladdress", "inline"):
        ok = str(dec) == v
    elif vc == "int":
        ok = int(dec) == v
    else:
        ok = vals.obs(dec)[1:7] == vals.obs(vals.py(v))[1:7] and (dec.tzinfo is None) == (vals.py(v).tzinfo is None)
    if not ok:
        ctx.fail("split-value", observed=(line, n2, got_params, v2), expected=want_text)
        return
    ctx.count("join:roundtrip-ok")
    # the same property stored on a component (parameters handed to add()): the line the component writes carries exactly these parameters -
    # the value object owns them, whatever other value objects of its class were given earlier in this process
    try:
        import icalendar
        comp = icalendar.Event()
        fresh, _ = make_value(vc, v)
        comp.add(name, fresh, parameters=dict(d) or None)
        clines = [l for l in R3.unfold(comp.to_ical()).decode("utf-8").split("\r\n") if l and not l.startswith(("BEGIN:", "END:"))]
    except (AssertionError, ValueError):
        clines = None
        ctx.count("join:component-refused")
    if clines is not None:
        if len(clines) != 1:
            ctx.fail("component-line-count", observed=clines[:4], expected="one property line")
            return
        try:
            cn, cp, cv = R2.parse(clines[0])
        except R2.R2Error as e:
            ctx.fail("emitted-not-rfc", observed=(clines[0], str(e)), expected="tokenizable content line")
            return
        c_params = {k.upper(): canon([x for x, _ in vs]) for k, vs in cp}
        if vc == "datetime":
            c_params = {k: x for k, x in c_params.items() if k not in ("TZID", "VALUE")}
        if (cn.upper(), c_params, cv) != (name.upper(), want_params_emitted, want_text):
            ctx.fail("component-line-differs", observed=(clines[0], c_params), expected=(name, want_params_emitted, want_text))
            return
        ctx.count("join:component-line-ok")
    # splitting must not depend on what a caller did with an earlier result: edit the returned map in place, split an equal line again
    p2["X-VERIF-MUTATED"] = "1"
    p2.pop(next(iter(want_params_emitted), "X-NONE"), None)
    n3, p3, v3 = Contentline.from_ical(Contentline(line).to_ical()).parts()
    if (n3, {str(k): canon(x) for k, x in p3.items()}, v3) != (n2, got_params, v2):
        ctx.fail("split-depends-on-history", observed=(line, n3, {str(k): canon(x) for k, x in p3.items()}, v3), expected=(n2, got_params, v2))


def build_inject(pos, payload):
    """-> (calendar, intended structure Counter) ; may raise (refusal at build)"""
    from icalendar import Alarm, Calendar, Event, Todo, vCalAddress, vUri, vText
    cal = Calendar()
    cal.add("version", "2.0")
    cal.add("prodid", "-//verif//c05//")
    ev = Event()
    ev.add("uid", "u1")
    todo = Todo()
    todo.add("uid", "u2")
    alarm = Alarm()
    alarm.add("action", "DISPLAY")
    st = Counter()
    C, E, T, A = ("VCALENDAR",), ("VCALENDAR", "VEVENT"), ("VCALENDAR", "VTODO"), ("VCALENDAR", "VEVENT", "VALARM")
    st[(C, "VERSION", frozenset())] += 1
    st[(C, "PRODID", frozenset())] += 1
    st[(E, "UID", frozenset())] += 1
    st[(T, "UID", frozenset())] += 1
    st[(A, "ACTION", frozenset())] += 1

    def put(comp, path, name, value, params=None):
        comp.add(name, value, parameters=params)
        st[(path, name.upper(), frozenset(k.upper() for k in (params or {})))] += 1

    if pos == "summary":
        put(ev, E, "summary", payload)
    elif pos == "description-vtodo":
        put(todo, T, "description", payload)
    elif pos == "url":
        put(ev, E, "url", vUri(payload))
    elif pos == "attendee":
        put(ev, E, "attendee", vCalAddress(payload), {"CN": "x"})
    elif pos == "xprop":
        put(ev, E, "x-verif", payload)
    elif pos == "category":
        ev.add("categories", ["a", payload, "b"])
        st[(E, "CATEGORIES", frozenset())] += 1
    elif pos == "inline":
        ev.set_inline("resources", ["r1", payload])
        st[(E, "RESOURCES", frozenset())] += 1
    elif pos == "resources":
        put(ev, E, "resources", payload)
    elif pos == "nested-alarm-text":
        put(alarm, A, "summary", payload)
    elif pos == "param-scalar":
        put(ev, E, "attendee", vCalAddress("mailto:a@example.com"), {"CN": payload})
    elif pos == "param-list":
        put(ev, E, "attendee", vCalAddress("mailto:a@example.com"), {"MEMBER": ["mailto:m@example.com", payload, "x"]})
    elif pos == "param-text-prop":
        put(todo, T, "summary", "s", {"ALTREP": payload, "LANGUAGE": "en", "VALUE": "TEXT"})       # (VALUE naming the default type is a parameter like any other)
    elif pos == "cal-prop":
        put(cal, C, "x-wr-calname", payload)
    elif pos == "comment-alarm":
        put(alarm, A, "description", payload)
    elif pos == "param-two":
        put(ev, E, "organizer", vCalAddress("mailto:o@example.com"), {"CN": payload, "SENT-BY": payload})
    elif pos == "geo-str":
        put(ev, E, "location", vText(payload), {"X-LABEL": "l" + payload})
    else:
        raise ValueError(pos)
    ev.add_component(alarm)
    cal.add_component(ev)
    cal.add_component(todo)
    return cal, st


def structure_of(comp, path=()):
    from icalendar.cal import Component
    st = Counter()
    errs = []
    path = path + (comp.name,)
    for name, v in comp.items():
        for item in (v if isinstance(v, list) else [v]):
            params = getattr(item, "params", {}) or {}
            st[(path, str(name).upper(), frozenset(str(k).upper() for k in params.keys()))] += 1
    errs += [(path, e) for e in comp.errors]
    for sub in comp.subcomponents:
        s2, e2 = structure_of(sub, path)
        st += s2
        errs += e2
    return st, errs


def raw_break_written(payload, data):
    """the output contains a CR/LF of the payload verbatim: with payload text next to it, or - for a payload that is nothing but
    line breaks - between two delimiters, where a value belongs"""
    import re
    text = data.decode("utf-8", "replace").replace('"', "'")
    payload = payload.replace('"', "'")                  # (dquote writes a DQUOTE inside a parameter value as an apostrophe)
    if payload.strip("\r\n") == "":
        return bool(payload) and re.search("[=:,;']" + re.escape(payload) + "[;:,'m]", text) is not None
    for m in re.finditer(r"[\r\n]+", payload):
        frag = payload[max(0, m.start() - 3): m.end() + 3]
        if frag.strip("\r\n") != "" and frag in text:
            return True
    return False


def check_inject(ctx, case):
    from icalendar import Calendar
    _, pos, payload = case
    ctx.nontrivial(bool(SPECIAL.intersection(payload)) or any(ord(c) < 32 or 0x7f <= ord(c) < 0xa0 or c in "\u2028\u2029" for c in payload))
    try:
        cal, intended = build_inject(pos, payload)
        data = cal.to_ical()
    except Exception as e:
        ctx.count("inject:refused:" + type(e).__name__)
        return
    try:
        back = Calendar.from_ical(data)
    except ValueError:
        ctx.count("inject:rejected-whole")
        return
    except Exception as e:
        ctx.count("inject:rejected-whole-other:" + type(e).__name__)   # exception type is C04's business
        return
    got, errs = structure_of(back)
    extra = got - intended
    missing = intended - got
    key = None
    if extra or missing:
        pred, involved = predict_structure(data)
        if involved and pred is not None and pred == got:
            key = "parts-placeholder-param"      # the defect model predicts the re-parsed structure exactly
        elif sys.flags.optimize and raw_break_written(payload, data):
            # python -O: the asserts that refuse a raw line break in a content line are gone and the writer put the value's own CR/LF on the wire
            key = "asserts-stripped-under-O"
    if extra:
        ctx.fail("structure-extra", observed=(sorted(map(str, extra.elements()))[:5], data[:300]), expected="no additional or differently named component/property/parameter", key=key)
        return
    if missing:
        # the offending property alone may be rejected, with an entry in the error list of its (lenient) component
        for (path, name, pn), cnt in missing.items():
            if not any(p == path and (e[0] in (name, None)) for p, e in errs):
                ctx.fail("structure-missing-silently", observed=((path, name, sorted(pn)), [str(e)[:80] for e in errs][:3], data[:300]),
                         expected="kept, or rejected with an errors entry", key=key)
                return
        ctx.count("inject:property-rejected")
        return
    ctx.count("inject:structure-intact")
    # the unsorted serialisation denotes the same tree (all nesting levels included)
    try:
        got_u, _ = structure_of(Calendar.from_ical(cal.to_ical(sorted=False)))
    except Exception as e:
        ctx.fail("unsorted-output-rejected", observed=f"{type(e).__name__}: {e}"[:200], expected="the same tree as the sorted output")
        return
    if got_u != got:
        ctx.fail("unsorted-output-differs", observed=(sorted(map(str, (got - got_u).elements()))[:5], sorted(map(str, (got_u - got).elements()))[:5]), expected="the same tree as the sorted output")
        return
    # same for whole trees: edit every parameter map of the first result in place, parse the same bytes again
    for comp in back.walk():
        for v in comp.values():
            for item in (v if isinstance(v, list) else [v]):
                if hasattr(item, "params"):
                    item.params["X-VERIF-MUTATED"] = "1"
    got2, _ = structure_of(Calendar.from_ical(data))
    if got2 != intended:
        ctx.fail("structure-depends-on-history", observed=(sorted(map(str, (got2 - intended).elements()))[:5], data[:200]), expected="the same tree as the first parse")


def check_case(ctx, case):
    if case[0] == "join":
        return check_join(ctx, case)
    return check_inject(ctx, case)


def predict_structure(data):
    """Structure the re-parse yields under the placeholder defect model (vmon/defects.py:lenient_parts), or None if the model says 'whole parse rejected'."""
    st = Counter()
    stack = []
    involved = False
    for line in R3.unfold(data).decode("utf-8").split("\r\n"):
        if not line:
            continue
        sim = defects.lenient_parts(line)
        if sim[0] == "reject":
            if stack and stack[-1] == "VEVENT":
                involved = involved or defects.placeholder_involved(line)
                continue
            return None, involved
        _, name, params, value = sim
        if name.upper() == "BEGIN":
            stack.append(value.upper())
        elif name.upper() == "END":
            if not stack:
                return None, involved          # an END without BEGIN: the model says "whole parse rejected"
            stack.pop()
        else:
            involved = involved or defects.placeholder_involved(line)
            st[(tuple(stack), name.upper(), frozenset(params))] += 1
    return st, involved


def classify(case, kind, observed, expected):
    if case[0] == "inject":
        if kind in ("structure-extra", "structure-missing-silently"):
            data = observed[-1] if isinstance(observed[-1], bytes) else None
            return None
        return None
    if kind in ("split-name-params", "split-value", "split-value-undecodable"):
        line = observed[0]
        if not defects.placeholder_involved(line):
            return None
        sim = defects.lenient_parts(line)
        if sim[0] == "ok" and (sim[1], sim[2], sim[3]) == (observed[1], observed[2], observed[3]):
            return "parts-placeholder-param" if kind == "split-name-params" else "parts-placeholder-value"
    if kind == "split-rejected":
        line = observed[0]
        if defects.placeholder_involved(line) and defects.lenient_parts(line)[0] == "reject":
            try:
                R2.parse(line)
            except R2.R2Error:
                return None
            return "parts-placeholder-param"
    return None


def inconclusive(m, tier):
    c = m["counters"]
    out = []
    if not c.get("join:roundtrip-ok"):
        out.append("no join/split round trip evaluated")
    if not c.get("inject:structure-intact"):
        out.append("no injection case reached the structure comparison")
    if not any(k.startswith("inject:refused") for k in c):
        out.append("no payload was refused at serialisation (the LF refusal was never reached)")
    return out


TECHNIQUE = "join/split inverse checked with the library and an independent tokenizer (R2); structure-injection monitor comparing intended vs re-parsed (path, property, parameter-name) multisets"
LEVEL_TEXT = ("Sentence 1: every alphabet string up to the bound is joined and split as text/uri/cal-address/inline value (plus typed values and parameter maps) and "
              "must come back as the same name, parameters and a value text decoding to the value, also under an independent tokenizer. Sentence 2: every "
              "payload of a hostile list is placed in 14 positions of a real calendar; the only admissible outcomes are refusal, rejection, or exactly the "
              "intended structure. Complete for the alphabet bound and the payload list, sampled for random token soup. The line an Event writes after add(name, value, parameters=) is read with the same tokenizer.")
LEVEL_NOTE = "trusts vmon/refs/contentline.py, text.py, fold.py; refusals are AssertionErrors today and disappear under python -O (not explored)"
