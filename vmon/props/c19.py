"""C19 Recurrence rules round-trip all parts, FREQ first, same occurrences."""
import itertools
from datetime import date, datetime, timedelta, timezone

from ..refs import values as R4

ID = "C19"
RULE = ("recurrence rules from seeded generation: every FREQ; COUNT xor UNTIL (date, floating, UTC) or neither; INTERVAL; each BYxxx part with 1-4 values "
        "positive and negative incl. range ends and zero; ordinal weekdays +-1..53; WKST; leap-month BYMONTH + RSCALE (names in upper, lower and mixed case) / SKIP (with and without RSCALE); keys in random case; scalar vs "
        "list vs tuple values; constructed via keywords, a mapping, item assignment; plus an exhaustive sweep of every single part at each of its boundary "
        "values with every FREQ; decode side also with a trailing ';'; YEARLY/MONTHLY and small-COUNT rules are also put to use (RRULE of an event, RRULE of a VTIMEZONE observance converted by both providers) "
        "and must encode to the same text afterwards. Oracles: RECUR grammar with [RSCALE;]FREQ first (R4), typed part-by-part comparison "
        "after decode, text fixpoint, and first 50 occurrences of dateutil.rrulestr(text) vs dateutil.rrule built from the supplied parts (R9); "
        "non-trivial = at least two parts besides FREQ or a negative/ordinal value; distinct by case hash")
ASSUMPTIONS = ["R4.recur_problems is the RFC 5545 3.3.10 / RFC 7529 RECUR grammar", "dateutil.rrule is the standard expander (R9)",
               "occurrences are compared only for RFC 5545 parts dateutil accepts and only for rules whose expansion is cheap (see gen_rule)"]
SOFT_S = {"quick": 12, "thorough": 240}
UTC = timezone.utc
FREQS = ["SECONDLY", "MINUTELY", "HOURLY", "DAILY", "WEEKLY", "MONTHLY", "YEARLY"]
WD = ["SU", "MO", "TU", "WE", "TH", "FR", "SA"]
CANON = ("RSCALE", "FREQ", "UNTIL", "COUNT", "INTERVAL", "BYSECOND", "BYMINUTE", "BYHOUR", "BYDAY", "BYMONTHDAY", "BYYEARDAY", "BYWEEKNO",
         "BYMONTH", "BYSETPOS", "WKST", "SKIP")
BOUNDS = {"BYSECOND": [0, 1, 59, 60], "BYMINUTE": [0, 1, 59], "BYHOUR": [0, 1, 23], "BYMONTHDAY": [1, -1, 31, -31, 15], "BYYEARDAY": [1, -1, 366, -366, 100],
          "BYWEEKNO": [1, -1, 53, -53, 20], "BYSETPOS": [1, -1, 366, -366, 2], "BYMONTH": [1, 12, 6], "COUNT": [1, 2, 1000], "INTERVAL": [1, 2, 99],
          "BYDAY": ["MO", "1MO", "-1SU", "53FR", "-53SA", "+2TU"], "WKST": ["SU", "MO", "SA"]}


def randcase(rng, k):
    r = rng.randrange(4)
    return k if r == 0 else k.lower() if r == 1 else k.capitalize() if r == 2 else "".join(rng.choice((c.lower(), c.upper())) for c in k)


def shape(rng, vals):
    """scalar / list / tuple presentation of a value list"""
    if len(vals) == 1 and rng.randrange(2):
        return ("scalar", vals[0])
    return (rng.choice(("list", "tuple")), tuple(vals))


def gen_rule(rng):
    freq = rng.choice(FREQS)
    parts = {"FREQ": ("scalar", randcase(rng, freq)) if rng.randrange(2) else ("list", (freq,))}
    r = rng.randrange(4)
    until_kind = None
    if r == 0:
        parts["COUNT"] = shape(rng, [rng.choice((1, 2, 5, 10, rng.randrange(1, 500)))])
    elif r == 1:
        until_kind = rng.choice(("date", "floating", "utc"))
        y, m, d = rng.randrange(2001, 2030), rng.randrange(1, 13), rng.randrange(1, 29)
        if until_kind == "date":
            u = ("date", y, m, d)
        else:
            u = ("dt", y, m, d, rng.randrange(24), rng.randrange(60), rng.randrange(60), until_kind == "utc")
        parts["UNTIL"] = shape(rng, [u])
    if rng.randrange(2):
        parts["INTERVAL"] = shape(rng, [rng.choice((1, 2, 3, rng.randrange(1, 60)))])
    pool = ["BYSECOND", "BYMINUTE", "BYHOUR", "BYDAY", "BYMONTHDAY", "BYYEARDAY", "BYWEEKNO", "BYMONTH", "BYSETPOS"]
    k = rng.choice((0, 1, 1, 2, 3, 4))
    for name in rng.sample(pool, k):
        n = rng.randrange(1, 5)
        if name == "BYDAY":
            vals = []
            for _ in range(n):
                if rng.randrange(2):
                    vals.append(rng.choice(WD))
                else:
                    o = rng.choice((1, 2, 4, 5, 53, rng.randrange(1, 54)))
                    vals.append(rng.choice(("", "+", "-")) + str(o) + rng.choice(WD))
            vals = [randcase(rng, v) if rng.randrange(3) == 0 else v for v in vals]
        elif name == "BYMONTH":
            vals = [rng.randrange(1, 13) for _ in range(n)]
        else:
            lo, hi, signed = R4._RANGES[name]
            vals = []
            for _ in range(n):
                v = rng.choice((lo, hi, rng.randrange(lo, hi + 1)))
                if signed and rng.randrange(3) == 0:
                    v = -v
                vals.append(v)
        # (a value may be listed twice: the list is the caller's, it comes back as given)
        parts[name] = shape(rng, vals if rng.randrange(4) == 0 else list(dict.fromkeys(vals)))
    if rng.randrange(3) == 0:
        parts["WKST"] = shape(rng, [rng.choice(WD)])
    rfc7529 = False
    if rng.randrange(6) == 0:
        rfc7529 = True
        # RSCALE names are text: CLDR spells the calendar names in lower case, RFC 7529's examples in upper case
        parts["RSCALE"] = shape(rng, [rng.choice(("GREGORIAN", "HEBREW", "CHINESE", "hebrew", "islamic-civil", "Ethiopic", "gregorian", "X-verif-Cal"))])
        if rng.randrange(2):
            parts["SKIP"] = shape(rng, [rng.choice(("OMIT", "BACKWARD", "FORWARD"))])
        if rng.randrange(2):
            parts["BYMONTH"] = shape(rng, [rng.choice(("5L", "1", "12L", 3))])
        elif rng.randrange(2):
            # the same month in ordinary and in leap form are two values
            m = rng.randrange(1, 13)
            parts["BYMONTH"] = ("list", tuple(rng.sample([m, f"{m}L", rng.randrange(1, 13)], 3)))
    elif rng.randrange(12) == 0:
        # "any combination of rule parts": SKIP supplied without RSCALE is still a part the caller supplied
        parts["SKIP"] = shape(rng, [rng.choice(("OMIT", "BACKWARD", "FORWARD"))])
    if rng.randrange(12) == 0:
        # the classic "n-th working day" family, so that BYSETPOS is also expanded
        for n in ("BYSECOND", "BYMINUTE", "BYHOUR", "BYMONTHDAY", "BYYEARDAY", "BYWEEKNO", "BYMONTH"):
            parts.pop(n, None)
        parts["FREQ"] = ("scalar", rng.choice(("MONTHLY", "YEARLY")))
        parts["BYDAY"] = ("list", tuple(rng.sample(WD, rng.randrange(3, 7))))
        parts["BYSETPOS"] = shape(rng, rng.sample([1, 2, -1, -2], rng.randrange(1, 3)))
    keys = list(parts)
    rng.shuffle(keys)
    items = tuple((randcase(rng, k), parts[k]) for k in keys)
    how = rng.choice(("kwargs", "mapping", "setitem"))
    return ("rule", how, items, rng.randrange(2))


def run(ctx):
    i = 0
    # boundary sweep: each part at each boundary value, alone and with every FREQ
    for freq in FREQS:
        for name, vals in BOUNDS.items():
            for v in vals:
                for how in ("kwargs", "mapping"):
                    for sh in ("scalar", "list"):
                        if ctx.mine(i):
                            val = ("scalar", v) if sh == "scalar" else ("list", (v,))
                            ctx.check(("rule", how, (("FREQ", ("scalar", freq)), (name, val)), 0), "boundary", enum=True)
                        i += 1
    ctx.exhaustive["single part x boundary values x FREQ x form"] = True
    rng = ctx.rng
    while ctx.time_left():
        ctx.check(gen_rule(rng), "random")


class _Timeout(BaseException):
    pass


class _time_limit:
    def __init__(self, seconds):
        self.seconds = seconds

    def _fire(self, signum, frame):
        raise _Timeout()

    def __enter__(self):
        import signal
        self.old = signal.signal(signal.SIGALRM, self._fire)
        signal.setitimer(signal.ITIMER_REAL, self.seconds)

    def __exit__(self, *exc):
        import signal
        signal.setitimer(signal.ITIMER_REAL, 0)
        signal.signal(signal.SIGALRM, self.old)
        return False


def to_py(v):
    if isinstance(v, tuple) and v and v[0] == "date":
        return date(*v[1:])
    if isinstance(v, tuple) and v and v[0] == "dt":
        return datetime(*v[1:7], tzinfo=UTC if v[7] else None)
    return v


def present(sh):
    kind, v = sh
    if kind == "scalar":
        return to_py(v)
    vals = [to_py(x) for x in v]
    return vals if kind == "list" else tuple(vals)


def values_of(sh):
    kind, v = sh
    return [to_py(v)] if kind == "scalar" else [to_py(x) for x in v]


def typed(name, v):
    """Canonical typed observation of one supplied/decoded item."""
    if name in ("COUNT", "INTERVAL") or name in R4._RANGES:
        return ("int", int(v))
    if name == "BYMONTH":
        s = str(v)
        leap = getattr(v, "leap", None)
        if leap is None:
            leap = s.endswith("L")
        return ("month", int(str(s).rstrip("L")) if not isinstance(v, int) else int(v), bool(leap))
    if name in ("BYDAY", "WKST"):
        s = str(v).upper()
        m = R4.WEEKDAYNUM.match(s)
        ordn = int(m.group(1)) if m and m.group(1) else None
        return ("weekday", ordn, s[-2:])
    if name == "FREQ":
        return ("freq", str(v).upper())
    if name == "UNTIL":
        if isinstance(v, datetime):
            return ("datetime", v.replace(tzinfo=None), v.tzinfo is not None and v.utcoffset() == timedelta(0))
        return ("date", v)
    return ("text", str(getattr(v, "value", v)))


def check_case(ctx, case):
    import dateutil.rrule as DR
    from icalendar.prop import vRecur
    _, how, items, trailing = case
    names = [k.upper() for k, _ in items]
    nt = len(items) > 2 or any(isinstance(x, (int, str)) and str(x).startswith("-") for _, sh in items for x in values_of(sh))
    ctx.nontrivial(nt)
    if how == "kwargs":
        rec = vRecur(**{k: present(sh) for k, sh in items})
    elif how == "mapping":
        rec = vRecur({k: present(sh) for k, sh in items})
    else:
        rec = vRecur()
        for k, sh in items:
            rec[k] = present(sh)
    text = rec.to_ical().decode("utf-8")
    probs = R4.recur_problems(text)
    if probs:
        ctx.fail("grammar", observed=(text, probs), expected="RECUR grammar with [RSCALE;]FREQ first")
    # every supplied part is present in the text with the supplied items in order (read with my own splitter)
    tparts = dict(p.split("=", 1) for p in text.split(";") if "=" in p)
    want_typed = {k.upper(): [typed(k.upper(), v) for v in values_of(sh)] for k, sh in items}
    for k, want in want_typed.items():
        if k not in tparts:
            ctx.fail("part-missing-in-text", observed=text, expected=k)
            continue
        got_text_items = tparts[k].split(",")
        got = []
        for x in got_text_items:
            if k == "UNTIL":
                got.append(typed(k, R4.eval_datetime(x) if "T" in x else R4.eval_date(x)))
            else:
                got.append(typed(k, x))
        if got != want:
            ctx.fail("encoded-items", observed=(k, tparts[k]), expected=want)
    if set(tparts) - set(want_typed):
        ctx.fail("extra-part-in-text", observed=text, expected=sorted(want_typed))
    # decode
    dec_text = text + (";" if trailing else "")
    try:
        back = vRecur.from_ical(dec_text)
    except ValueError as e:
        ctx.fail("decode-rejected", observed=f"ValueError: {e}", expected=text)
        return
    bkeys = list(back.keys())
    text_order = [p.split("=")[0] for p in text.split(";")]
    if bkeys != text_order:
        ctx.fail("decoded-part-order", observed=bkeys, expected=text_order)
    for k, want in want_typed.items():
        if k not in back:
            ctx.fail("decoded-part-missing", observed=bkeys, expected=k)
            continue
        vals = back[k]
        if not isinstance(vals, (list, tuple)):
            vals = [vals]
        got = [typed(k, v) for v in vals]
        if got != want:
            ctx.fail("decoded-items", observed=(k, got), expected=want)
        for v, w in zip(vals, want):
            # the decoded item must be the typed value, not just text that prints the same
            if w[0] == "int" and not (isinstance(v, int) and not isinstance(v, bool)):
                ctx.fail("decoded-item-type", observed=(k, type(v).__name__, repr(v)), expected="an int")
            elif w[0] == "weekday" and (getattr(v, "relative", "absent") != w[1] or str(getattr(v, "weekday", "")).upper() != w[2]):
                ctx.fail("decoded-item-type", observed=(k, repr(v), getattr(v, "relative", "absent"), getattr(v, "weekday", "absent")),
                         expected=("weekday with relative/weekday", w[1], w[2]))
            elif w[0] == "month" and (not isinstance(v, int) or bool(getattr(v, "leap", None)) != w[2]):
                ctx.fail("decoded-item-type", observed=(k, repr(v)), expected=w)
            elif w[0] == "date" and type(v) is not date:
                ctx.fail("decoded-item-type", observed=(k, repr(v)), expected=w)
            elif w[0] == "datetime" and type(v) is not datetime:
                ctx.fail("decoded-item-type", observed=(k, repr(v)), expected=w)
    again = back.to_ical().decode("utf-8")
    if again != text:
        ctx.fail("reencode", observed=again, expected=text)
    # a component written with sorted=False keeps its *properties* in insertion order; the parts of a rule are not properties
    import icalendar as _ical
    _ev = _ical.Event()
    _ev.add("rrule", rec)
    for flag in (True, False):
        rl = [l for l in _ev.to_ical(sorted=flag).decode("utf-8").replace("\r\n ", "").split("\r\n") if l.startswith("RRULE:")]
        if rl != ["RRULE:" + text]:
            ctx.fail("component-writes-rule-differently", observed=(f"sorted={flag}", rl), expected="RRULE:" + text)
            return
    # the rule *in use*: as RRULE of an event and of a VTIMEZONE observance that both providers turn into a zone - whatever reads the rule
    # (and whatever it answers), the caller's rule encodes to the same text afterwards
    if want_typed["FREQ"][0][1] in ("YEARLY", "MONTHLY") and "COUNT" not in want_typed or want_typed.get("COUNT", [("int", 10 ** 6)])[0][1] <= 50:
        import icalendar
        from icalendar.timezone.tzp import TZP
        used = []
        try:
            with _time_limit(1):
                ev = icalendar.Event()
                ev.add("dtstart", datetime(2001, 1, 1, 2, 0, 0))
                ev.add("rrule", rec)
                ev.to_ical()
                icalendar.Event.from_ical(ev.to_ical())
                tzc = icalendar.Timezone()
                tzc.add("tzid", "Verif/Recur")
                st = icalendar.TimezoneStandard()
                st.add("dtstart", datetime(1990, 1, 1, 2, 0, 0))
                st.add("tzoffsetfrom", timedelta(hours=2))
                st.add("tzoffsetto", timedelta(hours=1))
                st.add("rrule", rec)
                tzc.add_component(st)
                for prov in ("pytz", "zoneinfo"):
                    try:
                        tzc.to_tz(TZP(prov), lookup_tzid=False)
                        used.append(prov)
                    except _Timeout:
                        raise
                    except Exception:
                        used.append(prov + ":refused")
                tzc.to_ical()
        except _Timeout:
            ctx.count("rule-in-use:time-limit")
        except Exception as e:
            ctx.count("rule-in-use:setup-refused:" + type(e).__name__)
        after = rec.to_ical().decode("utf-8")
        if after != text:
            ctx.fail("rule-changed-by-use", observed=(after, used), expected=text)
            return
        ctx.count("rule-in-use-checks")
    # occurrences
    if any(n in names for n in ("RSCALE", "SKIP")) or any(t[0] == "month" and t[2] for t in want_typed.get("BYMONTH", [])):
        ctx.count("occurrences:skipped-rfc7529")
        return
    if any(t[0] == "month" and t[1] > 12 for t in want_typed.get("BYMONTH", [])):
        return
    freq = want_typed["FREQ"][0][1]
    coarse = [n for n in ("BYMONTH", "BYYEARDAY", "BYWEEKNO", "BYMONTHDAY", "BYDAY", "BYSETPOS") if n in want_typed]
    if freq in ("SECONDLY", "MINUTELY", "HOURLY") and coarse:
        ctx.count("occurrences:skipped-expensive")
        return
    cheap = (len(coarse) <= 1 or set(coarse) in ({"BYMONTH", "BYDAY"}, {"BYMONTH", "BYMONTHDAY"})) and not (
        "BYWEEKNO" in want_typed and freq != "YEARLY")
    if "BYSETPOS" in want_typed:
        # a position that never exists makes the expander scan to year 9999 (UNTIL is only tested on hits)
        cheap = (freq in ("MONTHLY", "YEARLY") and set(coarse) == {"BYSETPOS", "BYDAY"} and len(want_typed["BYDAY"]) >= 3
                 and all(t[1] is None for t in want_typed["BYDAY"]) and all(abs(t[1]) <= 2 for t in want_typed["BYSETPOS"]))
    if not cheap:
        # contradictory filters make the expander scan to year 9999; the round trip above is still checked
        ctx.count("occurrences:skipped-expensive")
        return
    if any(t[0] == "int" and t[1] == 60 for t in want_typed.get("BYSECOND", [])):
        return
    until = want_typed.get("UNTIL", [None])[0]
    aware = bool(until and until[0] == "datetime" and until[2])
    dtstart = datetime(2000, 1, 3, 9, 30, 15, tzinfo=UTC if aware else None)
    kw = {"dtstart": dtstart}
    if until:
        u = until[1]
        kw["until"] = (u.replace(tzinfo=UTC) if aware else u) if isinstance(u, datetime) else datetime(u.year, u.month, u.day)
    if "COUNT" in want_typed:
        kw["count"] = want_typed["COUNT"][0][1]
    if "INTERVAL" in want_typed:
        kw["interval"] = want_typed["INTERVAL"][0][1]
    for n, arg in (("BYSECOND", "bysecond"), ("BYMINUTE", "byminute"), ("BYHOUR", "byhour"), ("BYMONTHDAY", "bymonthday"),
                   ("BYYEARDAY", "byyearday"), ("BYWEEKNO", "byweekno"), ("BYSETPOS", "bysetpos")):
        if n in want_typed:
            kw[arg] = [t[1] for t in want_typed[n]]
    if "BYMONTH" in want_typed:
        kw["bymonth"] = [t[1] for t in want_typed["BYMONTH"]]
    wdmap = {"MO": DR.MO, "TU": DR.TU, "WE": DR.WE, "TH": DR.TH, "FR": DR.FR, "SA": DR.SA, "SU": DR.SU}
    if "BYDAY" in want_typed:
        kw["byweekday"] = [wdmap[t[2]](t[1]) if t[1] else wdmap[t[2]] for t in want_typed["BYDAY"]]
    if "WKST" in want_typed:
        kw["wkst"] = wdmap[want_typed["WKST"][0][2]]
    try:
        ref = DR.rrule(getattr(DR, freq), **kw)
    except (ValueError, TypeError):
        ctx.count("occurrences:r9-rejects-parts")
        return
    try:
        got_rule = DR.rrulestr(text, dtstart=dtstart)
    except (ValueError, TypeError) as e:
        ctx.fail("expander-rejects-text", observed=(text, f"{type(e).__name__}: {e}"), expected="same occurrences as the supplied rule")
        return
    try:
        with _time_limit(1.0):
            a = list(itertools.islice(ref, 50))
    except _Timeout:
        ctx.count("occurrences:abstained-expansion-too-long")   # wall clock is only used to abstain, never for a verdict
        return
    except Exception:
        ctx.count("occurrences:r9-expansion-fails")     # dateutil's own limits (e.g. 53TH inside a month)
        return
    try:
        with _time_limit(8.0):
            b = list(itertools.islice(got_rule, 50))
    except _Timeout:
        ctx.count("occurrences:abstained-expansion-too-long")
        return
    except Exception as e:
        ctx.fail("expander-fails-on-text", observed=(text, f"{type(e).__name__}: {e}"), expected=[str(x) for x in a[:6]])
        return
    ctx.count("occurrences:compared")
    if a != b:
        ctx.fail("occurrences", observed=(text, [str(x) for x in b[:6]]), expected=[str(x) for x in a[:6]])


def inconclusive(m, tier):
    return [] if m["counters"].get("occurrences:compared") else ["no occurrence sequence was compared"]


TECHNIQUE = "RECUR grammar + typed part comparison + occurrence equality against dateutil.rrule built from the supplied parts (R9)"
LEVEL_TEXT = ("Each generated rule is encoded by the real vRecur, checked against an independent RECUR grammar (FREQ first), decoded and compared part by part "
              "with the supplied typed values and order, re-encoded to the same text, and expanded with dateutil: the first 50 occurrences from the text must "
              "equal those of an rrule built directly from the supplied parts. Boundary values of every part are swept exhaustively, combinations are sampled. Rules are also put to use (event RRULE, VTIMEZONE observance converted by both providers) and must encode to the same text afterwards.")
LEVEL_NOTE = "trusts vmon/refs/values.py:recur_problems and dateutil.rrule; RFC 7529 parts and expensive sub-daily/filter combinations are round-trip only"
