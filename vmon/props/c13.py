"""C13 A generated VTIMEZONE reproduces the source zone offsets over its window."""
import random
from datetime import date, datetime, timedelta, timezone

from ..refs import vtimezone as R5

ID = "C13"
RULE = ("zone ids of the active provider (quick: a seeded sample per shard + sentinels Africa/Cairo, Africa/Casablanca, Africa/El_Aaiun, Pacific/Apia, Australia/Lord_Howe, "
        "Europe/Dublin, Antarctica/Troll, Asia/Kolkata, UTC, Africa/Algiers, America/Argentina/Buenos_Aires, Asia/Jerusalem; thorough: all ids) x provider "
        "{zoneinfo, pytz} (also: the zone taken from one provider through from_tzid's tzp argument while the other one is active library-wide) x window {default 1970-2038, seeded sub-windows of 1-30 years, windows starting/ending on a transition day}. For each generated "
        "component: well-formedness (TZID, >=1 observance, DTSTART/TZOFFSETFROM/TZOFFSETTO/TZNAME, onsets inside the window); the transition table of the "
        "source zone (pytz's own table / daily scan + bisection on zoneinfo's own utcoffset, tzname, dst) is aligned with the table the RFC 5545 reading (R5) "
        "of the component gives; then offset and abbreviation of R5(component) and of component.to_tz() are compared with the source at every transition "
        "-1 s / 0 / +1 s, at interval midpoints and on a grid (thorough: 6 h, quick: 5 d); a converted zone must keep its answers after another VTIMEZONE was converted; regenerating from the converted zone must give the same "
        "component; non-trivial = zone with at least one transition in the window; distinct by case hash")
ASSUMPTIONS = ["the source zone is judged by the active provider's own answers (S6)", "instants are compared inside [window start, window end)",
               "a discrepancy is attributed to a known finding only if the whole generated table equals the table predicted from the source under the listed mechanisms"]
SOFT_S = {"quick": 20, "thorough": 900}
HARD_S = {"quick": 900, "thorough": 14400}
CASE_TIMEOUT_S = 120
UTC = timezone.utc
SENTINELS = ["Africa/Cairo", "Africa/Casablanca", "Africa/El_Aaiun", "Pacific/Apia", "Australia/Lord_Howe", "Europe/Dublin", "Antarctica/Troll", "Asia/Kolkata", "UTC",
             "Africa/Algiers", "America/Argentina/Buenos_Aires", "Asia/Jerusalem", "Europe/Berlin", "America/New_York", "Asia/Hebron", "Europe/Lisbon", "Asia/Tehran",
             "Africa/Monrovia", "America/Costa_Rica", "America/Lima"]        # (Monrovia: the 1972 transition is at 00:44:30 UTC - not on a full minute; Costa Rica, Lima: daylight time only January to March/April of a few years)
DAY = timedelta(days=1)


def run(ctx):
    from .c11 import zone_ids
    rng = ctx.rng
    i = 0
    for prov in ("zoneinfo", "pytz"):
        ids = [z for z in zone_ids(prov) if z != "Factory"]
        if ctx.quick:
            # each shard draws its own zones; sentinels are spread over the shards
            mine = [z for k, z in enumerate(SENTINELS) if z in ids and k % ctx.nshards == ctx.shard]
            chosen = mine + rng.sample(ids, 2)
        else:
            chosen = [z for k, z in enumerate(ids) if k % ctx.nshards == ctx.shard]
        for z in chosen:
            if not ctx.time_left() and ctx.quick:
                break
            ctx.count("zones-visited:" + prov)
            ctx.check(("zone", prov, z, (1970, 1, 1), (2038, 1, 1)), "default-window")
            y = rng.randrange(1970, 2030)
            ctx.check(("zone", prov, z, (y, rng.randrange(1, 13), rng.randrange(1, 29)), (min(2037, y + rng.randrange(1, 31)), rng.randrange(1, 13), rng.randrange(1, 29))), "sub-windows")
            other = "zoneinfo" if prov == "pytz" else "pytz"
            if z in zone_ids(other) and (not ctx.quick or rng.randrange(2)):
                y = rng.randrange(1970, 2030)
                ctx.check(("zone", prov, z, (y, rng.randrange(1, 13), rng.randrange(1, 29)), (min(2037, y + rng.randrange(1, 31)), rng.randrange(1, 13), rng.randrange(1, 29)), other), "mixed-providers")
    ctx.exhaustive["all zone ids x providers, default window"] = not ctx.quick


# ---------------------------------------------------------------- source zone
def zone_object(prov, z):
    if prov == "pytz":
        import pytz
        return pytz.timezone(z)
    import zoneinfo
    return zoneinfo.ZoneInfo(z)


def state_at(tz, p):
    """(offset seconds, abbreviation, is_standard) the zone object reports for naive-UTC instant p"""
    d = p.replace(tzinfo=UTC).astimezone(tz)
    return (int(d.utcoffset().total_seconds()), d.tzname(), d.dst() == timedelta(0))


def local_midnight_utc(prov, tz, d):
    """the instant from_tzinfo starts/stops at: local midnight of the date, as the provider localises it"""
    naive = datetime(d.year, d.month, d.day)
    aware = tz.localize(naive) if hasattr(tz, "localize") else naive.replace(tzinfo=tz)
    return (aware - aware.utcoffset()).replace(tzinfo=None)


def source_table(prov, tz, z, lo, hi):
    """[(T, before, after)] for naive-UTC lo <= T < hi, each found to the second with the zone's own answers"""
    cands = set()
    try:
        import pytz
        ptz = pytz.timezone(z)
        for t in getattr(ptz, "_utc_transition_times", []) or []:
            if t.year >= 1900 and lo - DAY <= t < hi + DAY:
                cands.add(t)
    except Exception:
        pass
    out = []
    if prov == "zoneinfo":
        # daily scan with the provider's own answers, then bisection to the second
        p = lo
        prev = state_at(tz, p)
        while p < hi:
            q = min(p + DAY, hi)
            cur = state_at(tz, q)
            if cur != prev or any(p < c <= q for c in cands):
                # there may be several changes inside the day: walk candidates and bisect
                pts = sorted({p, q} | {c for c in cands if p < c < q})
                for a, b in zip(pts, pts[1:]):
                    sa, sb = state_at(tz, a), state_at(tz, b)
                    if sa != sb:
                        lo_, hi_ = a, b
                        while (hi_ - lo_).total_seconds() > 1:
                            mid = lo_ + timedelta(seconds=int((hi_ - lo_).total_seconds()) // 2)
                            if state_at(tz, mid) == sa:
                                lo_ = mid
                            else:
                                hi_ = mid
                        out.append((hi_, state_at(tz, hi_ - timedelta(seconds=1)), state_at(tz, hi_)))
            prev = cur
            p = q
    else:
        for t in sorted(cands):
            if lo <= t < hi:
                a, b = state_at(tz, t - timedelta(seconds=1)), state_at(tz, t)
                if a != b:
                    out.append((t, a, b))
    return [r for r in out if lo <= r[0] < hi]


# ---------------------------------------------------------------- generated component
def component_def(comp):
    """R5 definition of a generated VTIMEZONE (read through the typed accessors)"""
    out = []
    for sub in comp.subcomponents:
        rd = []
        if "RDATE" in sub:
            lists = sub["RDATE"] if isinstance(sub["RDATE"], list) else [sub["RDATE"]]
            for l in lists:
                rd.extend(x.dt for x in l.dts)
        out.append({"kind": sub.name, "dtstart": sub["DTSTART"].dt, "from": int(sub["TZOFFSETFROM"].td.total_seconds()), "to": int(sub["TZOFFSETTO"].td.total_seconds()),
                    "name": str(sub["TZNAME"]) if "TZNAME" in sub else None, "rdates": rd, "rule": None})
    return out


def wellformed_problems(comp, z, first, last):
    probs = []
    if str(comp.get("TZID")) != z:
        probs.append(f"TZID is {comp.get('TZID')!r}")
    if not comp.subcomponents:
        probs.append("no observance")
    lo, hi = datetime(*first), datetime(*last)
    for sub in comp.subcomponents:
        if sub.name not in ("STANDARD", "DAYLIGHT"):
            probs.append(f"subcomponent {sub.name}")
        for n in ("DTSTART", "TZOFFSETFROM", "TZOFFSETTO", "TZNAME"):
            if n not in sub:
                probs.append(f"{sub.name} lacks {n}")
        if "DTSTART" in sub:
            starts = [sub["DTSTART"].dt]
            if "RDATE" in sub:
                for l in (sub["RDATE"] if isinstance(sub["RDATE"], list) else [sub["RDATE"]]):
                    starts.extend(x.dt for x in l.dts)
            for s in starts:
                if not isinstance(s, datetime) or s.tzinfo is not None:
                    probs.append(f"onset {s!r} is not a local date-time")
                elif not (lo <= s <= hi + DAY):
                    probs.append(f"onset {s} outside the window")
    return probs


# ---------------------------------------------------------------- alignment under the known mechanisms
def align(prov, src, gen_rows, init_state, hi):
    """Predict the generated table from the source table under the known mechanisms and compare.
    -> (ok, explained windows [(lo, hi, key, generated-state-inside)], problem text)"""
    windows = []
    rows = list(gen_rows)
    if not rows:
        return False, windows, "generated table is empty"
    # first row: the state at the window start
    if rows[0][1] != init_state:
        return False, windows, f"first observance is {rows[0][1]}, the zone is in {init_state} at the window start"
    j = 1
    i = 0
    cur_gen_state = rows[0][1]
    S = list(src)
    n = len(S)
    while i < n:
        T, before, after = S[i]
        if T >= hi:
            break           # beyond the window: only looked at as the end of an excursion
        if before[0] == after[0]:
            # mechanism: the search watches utcoffset only - an abbreviation/DST-flag change at constant offset is never emitted
            nxt = S[i + 1][0] if i + 1 < n else None
            windows.append([T, nxt, "name-only-transition-missed", cur_gen_state])
            i += 1
            continue
        d = after[0] - before[0]
        shift = d if (prov == "pytz" or d > 0) else 0
        expect_t = T + timedelta(seconds=shift)
        if j < len(rows) and rows[j][0] == expect_t and rows[j][1] == after:
            if shift > 0:
                windows.append([T, expect_t, "onset-in-new-local-time", cur_gen_state])
            elif shift < 0:
                windows.append([expect_t, T, "onset-in-new-local-time", after])
            # close an open name-only window at the next emitted onset
            for w in windows:
                if w[2] == "name-only-transition-missed" and (w[1] is None or w[1] > expect_t) and w[0] < expect_t:
                    w[1] = max(expect_t, w[0])
            cur_gen_state = after
            i += 1
            j += 1
            continue
        # mechanism: an excursion shorter than the 64-day coarse step that returns to the previous offset loses both transitions
        k = i + 1
        while k < n and S[k][1][0] == S[k][2][0]:
            k += 1      # name-only changes inside the excursion
        if k < n and (S[k][0] - T) < timedelta(days=64) and S[k][2][0] == before[0]:
            windows.append([T, S[k][0], "short-excursion-skipped", cur_gen_state])
            if S[k][2] != cur_gen_state:
                # back at the old offset but under another abbreviation/flag: like a name-only change
                nxt = S[k + 1][0] if k + 1 < n else None
                windows.append([S[k][0], nxt, "name-only-transition-missed", cur_gen_state])
            i = k + 1
            continue
        got = rows[j] if j < len(rows) else None
        return False, windows, f"source transition {T} {before}->{after}: expected an onset at {expect_t} with {after}, generated table has {got}"
    if j != len(rows):
        return False, windows, f"generated table has {len(rows) - j} onsets the source zone does not have, first {rows[j]}"
    return True, windows, None


def rows_of(r5def):
    return [(t, (o["to"], o["name"], o["kind"] == "STANDARD"), o["to"] - o["from"]) for t, o in R5.timeline(r5def)]


def classify_regeneration(prov, orig, again):
    """exact predictions of how the regenerated component differs:
    zoneinfo: the converted zone (dateutil) reports dst()==0 for a first observance written with TZOFFSETFROM == TZOFFSETTO, so a window
              that starts in daylight time comes back with that first observance as STANDARD - nothing else may change;
    pytz:     every onset is written in new local time again, i.e. each row but the first moves by its own offset change once more."""
    a, b = rows_of(orig), rows_of(again)
    if len(a) != len(b):
        return None
    if prov == "zoneinfo":
        if a and not a[0][1][2] and b[0][1] == (a[0][1][0], a[0][1][1], True) and a[1:] == b[1:] and a[0][0] == b[0][0]:
            return "regeneration-first-observance-dst-lost"
        return None
    pred = [a[0]] + [(t + timedelta(seconds=d), st, d) for t, st, d in a[1:]]
    if [(t, st[0], st[1]) for t, st, d in pred] == [(t, st[0], st[1]) for t, st, d in b]:
        return "onset-in-new-local-time"
    return None


def gen_state(tl, p):
    o = R5.lookup(tl, p)
    if o is None:
        return None
    return (o["to"], o["name"], o["kind"] == "STANDARD")


def check_case(ctx, case):
    import icalendar
    from icalendar.timezone import tzp
    _, prov, z, first, last = case[:5]
    # the provider the zone is taken from (from_tzid's own tzp argument) need not be the one that is active library-wide
    src_prov = case[5] if len(case) > 5 else prov
    (icalendar.use_pytz if prov == "pytz" else icalendar.use_zoneinfo)()
    if date(*last) <= date(*first):
        return
    conv_prov = prov
    mixed = src_prov != prov
    tz = zone_object(src_prov, z)
    prov = src_prov             # everything below that speaks about the *source* zone and the generator's arithmetic on it
    try:
        if mixed:
            from icalendar.timezone.tzp import TZP
            comp = icalendar.Timezone.from_tzid(z, TZP(src_prov), date(*first), date(*last))
            ctx.count("mixed-provider-cases")
        else:
            comp = icalendar.Timezone.from_tzid(z, tzp, date(*first), date(*last))
    except Exception as e:
        ctx.fail("from_tzid-raises", observed=f"{type(e).__name__}: {e}"[:200], expected="a VTIMEZONE")
        return
    probs = wellformed_problems(comp, z, first, last)
    if probs:
        ctx.fail("not-wellformed", observed=probs[:4], expected="TZID, observances with DTSTART/TZOFFSETFROM/TZOFFSETTO/TZNAME, onsets inside the window")
        return
    lo = local_midnight_utc(prov, tz, date(*first))
    hi = local_midnight_utc(prov, tz, date(*last))
    # the table is taken 70 days beyond the window: an excursion that starts inside the window can end after it
    src_ext = source_table(prov, tz, z, lo + timedelta(seconds=1), hi + timedelta(days=70))
    src = [r for r in src_ext if r[0] < hi]
    ctx.nontrivial(len(src) >= 1)
    ctx.count("source-transitions", len(src))
    r5def = component_def(comp)
    tl = R5.timeline(r5def)
    gen_rows = []
    for t, o in tl:
        st = (o["to"], o["name"], o["kind"] == "STANDARD")
        if not gen_rows or gen_rows[-1][1] != st or True:
            gen_rows.append((t, st))
    # a window that starts exactly at a transition instant: the generator writes the state before it as a first observance of zero
    # length, followed by the real one at the same instant - no instant inside [lo, hi) is affected; the edge instant itself is not judged
    edge = False
    while len(gen_rows) > 1 and gen_rows[1][0] == gen_rows[0][0] == lo and gen_rows[0][1] == state_at(tz, lo - timedelta(seconds=1)):
        gen_rows.pop(0)
        edge = True
        ctx.count("zero-length-first-observance")
    # a window that starts exactly at a transition instant T (zones that switch at local midnight): the generator reads the state before T
    # for the first observance and finds the change one second after its starting point - the real observance begins at T + 1 s (plus the
    # shift of onset-in-new-local-time).  Modelled exactly; [T, that onset) is a window of the known finding below.
    pre_windows = []
    before_lo, at_lo = state_at(tz, lo - timedelta(seconds=1)), state_at(tz, lo)
    if before_lo[0] != at_lo[0] and len(gen_rows) > 1 and gen_rows[0][1] == before_lo:
        d0 = at_lo[0] - before_lo[0]
        shift0 = d0 if (prov == "pytz" or d0 > 0) else 0
        if gen_rows[1][0] == lo + timedelta(seconds=shift0 + 1) and gen_rows[1][1] == at_lo:
            pre_windows.append([lo, gen_rows[1][0], "transition-at-window-start-late", before_lo])
            gen_rows = gen_rows[1:]
    ok, windows, problem = align(prov, src_ext, gen_rows, state_at(tz, lo), hi)
    windows = pre_windows + windows
    if not ok:
        ctx.fail("table-unexplained", observed=problem, expected="the source zone's transitions (allowing only the known mechanisms)",
                 detail=comp.to_ical().decode()[:3000])
        return
    for w in windows:
        ctx.count("mechanism:" + w[2])
    # ---- instants
    instants = set()
    for T, _, _ in src:
        for dlt in (-1, 0, 1):
            instants.add(T + timedelta(seconds=dlt))
    for t, _ in gen_rows:
        for dlt in (-1, 0, 1):
            instants.add(t + timedelta(seconds=dlt))
    edges = sorted({lo, hi} | {T for T, _, _ in src})
    for a, b in zip(edges, edges[1:]):
        instants.add(a + (b - a) / 2)
    step = timedelta(hours=6) if not ctx.quick else timedelta(days=5, hours=7)
    p = lo
    while p < hi:
        instants.add(p)
        p += step
    try:
        conv = comp.to_tz(tzp, lookup_tzid=False)
        conv_err = None
    except Exception as e:
        conv, conv_err = None, e
    if conv is None:
        big = [o for o in r5def if abs(o["to"] - o["from"]) >= 86400]
        key = "apia-dateline" if (isinstance(conv_err, ValueError) and big and conv_prov == "zoneinfo") else None
        ctx.fail("to_tz-raises", observed=f"{type(conv_err).__name__}: {conv_err}"[:200], expected="a tzinfo", key=key)
    for p in sorted(instants):
        p = p.replace(microsecond=0)
        if not (lo <= p < hi) or (edge and p == lo):
            continue
        want = state_at(tz, p)
        got = gen_state(tl, p)
        if got is None or got[0] != want[0] or got[1] != want[1]:
            key = None
            for wlo, whi, wkey, wstate in windows:
                if wlo <= p and (whi is None or p < whi) and got == wstate:
                    key = wkey
                    break
            ctx.fail("rfc-reading-differs", observed=(str(p), got), expected=want, key=key)
            if key is None:
                return
            continue
        ctx.count("instants-equal")
        if conv is not None:
            try:
                cs = state_at(conv, p)
            except Exception as e:
                # dateutil refuses utcoffset-dst differences of 24 h or more: a date-line jump (Pacific/Apia 2011) written as one observance
                big = [o for o in r5def if abs(o["to"] - o["from"]) >= 86400]
                key = "apia-dateline" if (isinstance(e, ValueError) and big and "strictly between" in str(e)) else None
                ctx.fail("converted-zone-raises", observed=(str(p), f"{type(e).__name__}: {e}"[:160]), expected=want, key=key)
                if key is None:
                    return
                conv = None
                continue
            if cs[0] != want[0] or cs[1] != want[1]:
                key = None
                if conv_prov == "zoneinfo":
                    from .. import defects
                    try:
                        pred = defects.tzical_model(r5def, p)
                        if pred[0] == cs[0] and (pred[1] is None or pred[1] == cs[1]):
                            key = "zoneinfo-dateutil-local-lookup"
                    except Exception:
                        pass
                ctx.fail("converted-zone-differs", observed=(str(p), cs), expected=want, key=key)
                if key is None:
                    return
    # ---- a converted zone keeps its answers when another VTIMEZONE is converted afterwards (same process, same provider)
    if conv is not None:
        sample = [p.replace(microsecond=0) for p in sorted(instants) if lo <= p < hi][:: max(1, len(instants) // 12)][:14]
        try:
            st_first = [state_at(conv, p) for p in sample]
            other = icalendar.Timezone.from_tzid("America/New_York" if z != "America/New_York" else "Europe/Berlin", tzp, date(1990, 1, 1), date(1995, 1, 1))
            other_tz = other.to_tz(tzp, lookup_tzid=False)
            state_at(other_tz, datetime(1992, 7, 1))
            again_states = [state_at(conv, p) for p in sample]
        except Exception as e:
            st_first = again_states = None
            ctx.count("second-conversion-skipped:" + type(e).__name__)
        if st_first is not None:
            if st_first != again_states:
                k = next(j for j, (a, b) in enumerate(zip(st_first, again_states)) if a != b)
                ctx.fail("converted-zone-changed-by-later-conversion", observed=(str(sample[k]), again_states[k]), expected=st_first[k])
                return
            ctx.count("second-conversions")
    # ---- regeneration
    if mixed:
        ctx.count("regeneration-skipped:mixed-providers")       # the converted zone is of the other provider's kind: "the same component" is not defined by the statement
    elif conv is not None:
        try:
            again = icalendar.Timezone.from_tzinfo(conv, z, date(*first), date(*last))
        except Exception as e:
            ctx.fail("regeneration-raises", observed=f"{type(e).__name__}: {e}"[:200], expected="the same component")
            return
        if again.to_ical() != comp.to_ical():
            ctx.fail("regeneration-differs", observed="from_tzinfo(to_tz(component)) != component", expected="the same component",
                     key=classify_regeneration(prov, r5def, component_def(again)))
        else:
            ctx.count("regenerations-equal")
    ctx.count("zones-aligned")


def inconclusive(m, tier):
    c = m["counters"]
    out = [f"monitor counter {k} is zero" for k in ("zones-aligned", "instants-equal", "source-transitions", "mixed-provider-cases") if not c.get(k)]
    return out


TECHNIQUE = "transition-table alignment (source zone vs RFC reading of the generated component) + instant probes at every transition +-1 s, with exact-prediction classifiers"
LEVEL_TEXT = ("For each visited zone and window the generated VTIMEZONE is checked for well-formedness, read with the independent RFC 5545 onset interpreter (R5) and "
              "aligned row by row with the transition table of the source zone; then R5(component) and component.to_tz() are compared with the source zone at "
              "every transition -1 s/0/+1 s, at midpoints and on a grid, and the component is regenerated from the converted zone. Thorough visits every zone "
              "id of both providers; quick a per-shard sample plus sentinels. Zones are also taken from the provider that is not active library-wide, and a converted zone must keep its answers after another VTIMEZONE was converted.")
LEVEL_NOTE = "trusts R5 and the provider's own utcoffset/tzname/dst answers; pytz's table seeds the search for transitions"
