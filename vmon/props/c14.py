"""C14 Alarm times = anchor + TRIGGER + k*DURATION, k=0..REPEAT (RFC 5545/9074)."""
from collections import Counter
from datetime import date, datetime, timedelta, timezone

from .. import vals
from ..refs import alarms as R6

ID = "C14"
RULE = ("VEVENT/VTODO scenarios: start in {date, floating, UTC, zoned within +-2 days of a DST transition in Europe/Berlin, America/New_York, "
        "Australia/Lord_Howe, none}; end in {DTEND/DUE, DURATION, none}; 0-4 alarms with relative triggers (+-days, h/m/s, mixed, zero), RELATED "
        "START/END/absent (in parsed text also in lower and mixed case), absolute UTC/zoned triggers, REPEAT -1..5 x DURATION present/absent, TRIGGER absent; built through the API, parsed from text "
        "written by an independent emitter, or fed to Alarms() directly (add_alarm/set_start/set_end); both providers; plus an exhaustive sweep of one "
        "alarm over trigger x related x repeat x duration x start kind; non-trivial = at least one alarm with a trigger; distinct by case hash")
ASSUMPTIONS = ["zoned arithmetic is Python's own for that tzinfo (wall clock for zoneinfo, normalised elapsed time for pytz) (S9)",
               "a component without DTSTART may report the documented incomplete-information errors even when all alarms are absolute (S9)",
               "component states the RFC forbids (DTEND and DURATION together...) are not generated here (C16)"]
SOFT_S = {"quick": 12, "thorough": 200}
UTC = timezone.utc

ZONED_STARTS = [
    ("dt", 2024, 3, 30, 2, 30, 0, "zone:Europe/Berlin"), ("dt", 2024, 3, 31, 1, 30, 0, "zone:Europe/Berlin"), ("dt", 2024, 3, 31, 3, 15, 0, "zone:Europe/Berlin"),
    ("dt", 2024, 10, 27, 1, 30, 0, "zone:Europe/Berlin"), ("dt", 2024, 10, 26, 2, 30, 0, "zone:Europe/Berlin"), ("dt", 2024, 10, 27, 3, 30, 0, "zone:Europe/Berlin"),
    ("dt", 2024, 3, 9, 2, 30, 0, "zone:America/New_York"), ("dt", 2024, 3, 10, 3, 30, 0, "zone:America/New_York"), ("dt", 2024, 11, 3, 0, 30, 0, "zone:America/New_York"),
    ("dt", 2024, 11, 2, 1, 30, 0, "zone:America/New_York"), ("dt", 2024, 4, 6, 1, 45, 0, "zone:Australia/Lord_Howe"), ("dt", 2024, 10, 5, 2, 15, 0, "zone:Australia/Lord_Howe"),
    ("dt", 2024, 7, 1, 12, 0, 0, "zone:Asia/Kolkata"),
]
STARTS = [("d", 2024, 3, 31), ("d", 2024, 1, 1), ("dt", 2024, 3, 31, 10, 0, 0, None), ("dt", 2024, 3, 31, 1, 0, 0, "UTC"), None] + ZONED_STARTS
TRIGGERS = [("td", 0), ("td", -900), ("td", 900), ("td", -86400), ("td", 86400), ("td", -3600), ("td", 7200), ("td", -90061), ("td", 172800 + 5),
            ("td", -604800), ("td", -1), ("td", 86400 * 2), ("dt", 2024, 3, 30, 23, 45, 0, "UTC"), ("dt", 2024, 10, 27, 0, 30, 0, "UTC"),
            ("dt", 2024, 3, 31, 1, 45, 0, "zone:Europe/Berlin"), None]
DURATIONS = [None, ("td", 300), ("td", 3600), ("td", 86400), ("td", 90000)]   # a zero DURATION with REPEAT is ambiguous (coinciding times): not generated
REPEATS = [None, -1, 0, 1, 2, 5]


def gen_alarm(rng):
    return (rng.choice(TRIGGERS), rng.choice((None, "START", "END")), rng.choice(REPEATS), rng.choice(DURATIONS))


def gen_end(rng, start):
    r = rng.randrange(4)
    if start is None:
        # no start: nothing, a DURATION, or an end of its own (a VTODO with only DUE is a legal component)
        return rng.choice((None, ("duration", ("td", 3600)), ("end", ("dt", 2024, 4, 2, 10, 0, 0, "UTC")), ("end", ("d", 2024, 4, 2)),
                           ("end", ("dt", 2024, 3, 31, 3, 15, 0, "zone:Europe/Berlin"))))
    if r == 0:
        return None
    if r == 1:
        return ("duration", rng.choice((("td", 86400), ("td", 172800), ("td", 0), ("td", 604800)) if start[0] == "d" else (("td", 3600), ("td", 86400), ("td", 5400), ("td", 0))))
    # explicit end of the same kind as the start, later
    if start[0] == "d":
        return ("end", ("d", start[1], start[2] + 0, start[3]) if False else ("d", 2024, 4, 2))
    s = list(start)
    s[3] = min(28, s[3] + rng.choice((0, 1)))
    s[4] = min(23, s[4] + rng.choice((0, 1, 5)))
    return ("end", tuple(s))


def run(ctx):
    i = 0
    for prov in ("zoneinfo", "pytz"):
        for comp in ("VEVENT", "VTODO"):
            for start in STARTS:
                for trig in TRIGGERS:
                    for related in (None, "START", "END"):
                        for rep in REPEATS:
                            for dur in DURATIONS:
                                if (rep in (None, -1)) and dur not in (None, ("td", 300)):
                                    continue
                                if ctx.mine(i):
                                    how = ("api", "parsed", "direct")[(i // ctx.nshards) % 3]
                                    ctx.check((how, prov, comp, start, None, ((trig, related, rep, dur),)), "single-alarm sweep", enum=True)
                                i += 1
    ctx.exhaustive["one alarm: trigger x related x repeat x duration x start x component x provider"] = True
    rng = ctx.rng
    # the multi-alarm scenarios are the only place where alarms of one component can influence each other (shared anchors, memoised triggers):
    # every worker runs a floor of them even when a loaded machine let the sweep above use up the time budget
    floor = max(200, 4000 // max(1, ctx.nshards))
    k = 0
    while ctx.time_left() or k < floor:
        k += 1
        ctx.count("multi-alarm-scenarios")
        start = rng.choice(STARTS)
        ctx.check((rng.choice(("api", "parsed", "direct")), rng.choice(("zoneinfo", "pytz")), rng.choice(("VEVENT", "VTODO")), start,
                   gen_end(rng, start), tuple(gen_alarm(rng) for _ in range(rng.randrange(0, 5)))), "random")


# ---------------------------------------------------------------- independent emitter (parsed path)
def fmt_value(v):
    """(params, text) of a date / datetime / timedelta descriptor, written from the RFC"""
    if v[0] == "d":
        return {"VALUE": "DATE"}, f"{v[1]:04}{v[2]:02}{v[3]:02}"
    if v[0] == "dt":
        text = f"{v[1]:04}{v[2]:02}{v[3]:02}T{v[4]:02}{v[5]:02}{v[6]:02}"
        if v[7] == "UTC":
            return {}, text + "Z"
        if v[7] is None:
            return {}, text
        return {"TZID": v[7].split(":", 1)[1]}, text
    if v[0] == "td":
        s = v[1]
        sign = "-" if s < 0 else ""
        s = abs(s)
        d, rem = divmod(s, 86400)
        h, rem = divmod(rem, 3600)
        m, sec = divmod(rem, 60)
        if rem == 0 and h == 0 and d:
            if d % 7 == 0:
                return {}, f"{sign}P{d // 7}W"           # whole weeks in the week form (RFC 5545 3.3.6)
            return {}, f"{sign}P{d}D"
        t = f"T{h}H{m}M{sec}S"
        return {}, f"{sign}P{d}D{t}" if d else f"{sign}P{t}"
    raise ValueError(v)


def emit_line(name, v, extra=None):
    params, text = fmt_value(v)
    params = dict(params)
    if extra:
        params.update(extra)
    p = "".join(f";{k}={val}" for k, val in params.items())
    return f"{name}{p}:{text}"


def emit(comp, start, endspec, alarms):
    endname = "DTEND" if comp == "VEVENT" else "DUE"
    lines = [f"BEGIN:{comp}", "UID:verif-c14", "SUMMARY:alarm scenario"]
    if start is not None:
        lines.append(emit_line("DTSTART", start))
    late_end = bool(endspec) and len(alarms) % 2 == 1        # properties of a component may follow its subcomponents
    if endspec and not late_end:
        lines.append(emit_line(endname if endspec[0] == "end" else "DURATION", endspec[1]))
    for trig, related, rep, dur in alarms:
        lines.append("BEGIN:VALARM")
        lines.append("ACTION:DISPLAY")
        if trig is not None:
            extra = {}
            if related:
                # (an unquoted parameter value is case-insensitive, RFC 5545 section 2: other producers write related=start)
                extra["RELATED"] = (related, related.lower(), related.capitalize())[len(lines) % 3]
            if trig[0] == "dt":
                extra["VALUE"] = "DATE-TIME"
            lines.append(emit_line("TRIGGER", trig, extra))
        if rep is not None:
            lines.append(f"REPEAT:{rep}")
        if dur is not None:
            lines.append(emit_line("DURATION", dur))
        lines.append("END:VALARM")
    if late_end:
        lines.append(emit_line(endname if endspec[0] == "end" else "DURATION", endspec[1]))
    lines.append(f"END:{comp}")
    return "\r\n".join(lines) + "\r\n"


ALLOWED_INCOMPLETE = ("IncompleteComponent", "ComponentStartMissing", "ComponentEndMissing", "IncompleteAlarmInformation")


def check_case(ctx, case):
    import icalendar
    from icalendar import Alarm, Alarms, Event, Todo
    from icalendar.tools import normalize_pytz as _unused  # noqa: F401  (import check only)
    how, prov, comp, start, endspec, alarms = case
    vals.use_provider(prov)
    ctx.nontrivial(any(a[0] is not None for a in alarms))
    cls = Event if comp == "VEVENT" else Todo
    endname = "DTEND" if comp == "VEVENT" else "DUE"
    py_start = vals.py(start) if start is not None else None
    end_prop = vals.py(endspec[1]) if endspec and endspec[0] == "end" else None
    dur_prop = vals.py(endspec[1]) if endspec and endspec[0] == "duration" else None
    if how == "parsed":
        # zoned absolute triggers are not RFC (must be UTC): the emitter writes them with TZID, parsing TRIGGER ignores TZID -> skip those
        if any(a[0] is not None and a[0][0] == "dt" and a[0][7] not in ("UTC",) for a in alarms):
            how = "api"
    normalize = (lambda d: d.tzinfo.normalize(d) if isinstance(d, datetime) and hasattr(d.tzinfo, "normalize") else d)
    model_alarms = [{"trigger": vals.py(t) if t is not None else None, "related": rel or "START", "repeat": rep, "duration": vals.py(d) if d else None}
                    for t, rel, rep, d in alarms]
    # ---- build
    alarm_objs = []
    if how == "parsed":
        text = emit(comp, start, endspec, alarms)
        try:
            c = cls.from_ical(text)
        except ValueError as e:
            ctx.fail("parse-rejected", observed=str(e), expected="well-formed scenario accepted")
            return
        alarm_objs = list(c.walk("VALARM"))
        if len(alarm_objs) != len(alarms):
            ctx.fail("parse-lost-alarm", observed=len(alarm_objs), expected=len(alarms))
            return
    else:
        c = cls()
        c.add("uid", "verif-c14")
        if py_start is not None:
            c.DTSTART = py_start
        if end_prop is not None:
            setattr(c, endname, end_prop)
        if dur_prop is not None:
            c.DURATION = dur_prop
        for m in model_alarms:
            a = Alarm()
            a.add("action", "DISPLAY")
            if m["trigger"] is not None:
                a.TRIGGER = m["trigger"]
                if m["related"] == "END" or (m["related"] == "START" and ctx.rng.randrange(2) and not ctx.replay):
                    if isinstance(m["trigger"], timedelta):
                        a.TRIGGER_RELATED = m["related"]
            if m["repeat"] is not None:
                a.REPEAT = m["repeat"]
            if m["duration"] is not None:
                a.DURATION = m["duration"]
            c.add_component(a)
            alarm_objs.append(a)
    # RELATED only matters for relative triggers; an alarm built through the API with related START and no parameter is START
    for m, (t, rel, rep, d) in zip(model_alarms, alarms):
        if rel is None:
            m["related"] = "START"
    # ---- per-alarm triggers tuple
    for a, m in zip(alarm_objs, model_alarms):
        try:
            tr = a.triggers
        except Exception as e:
            ctx.fail("alarm-triggers-raises", observed=f"{type(e).__name__}: {e}", expected="Triggers tuple")
            return
        want = {"start": (), "end": (), "absolute": ()}
        if m["trigger"] is not None:
            key = "absolute" if isinstance(m["trigger"], datetime) else ("end" if m["related"] == "END" else "start")
            seq = [m["trigger"]]
            if m["duration"] is not None and (m["repeat"] or 0) > 0:
                for k in range(1, m["repeat"] + 1):
                    seq.append(m["trigger"] + m["duration"] * k)
            want[key] = tuple(seq)
        got = {"start": tuple(tr.start), "end": tuple(tr.end), "absolute": tuple(tr.absolute)}
        if m["duration"] is not None and m["duration"] == timedelta(0) and (m["repeat"] or 0) > 0:
            # REPEAT with a zero DURATION: repeats coincide with the first time; the statement's formula still gives REPEAT further times
            pass
        if got != want:
            ctx.fail("alarm-triggers", observed=str(got), expected=str(want))
            return
    # ---- expected alarm times
    end = R6.default_end(py_start, end_prop, dur_prop)
    need_start = any(m["trigger"] is not None and isinstance(m["trigger"], timedelta) and m["related"] != "END" for m in model_alarms)
    need_end = any(m["trigger"] is not None and isinstance(m["trigger"], timedelta) and m["related"] == "END" for m in model_alarms)
    try:
        if how == "direct":
            al = Alarms()
            for a in alarm_objs:
                al.add_alarm(a)
            al.set_start(py_start)
            al.set_end(end)
        else:
            al = c.alarms
        times = al.times
        outcome = ("value", times)
    except Exception as e:
        outcome = ("raise", type(e).__name__, str(e)[:200])
    incomplete_ok = (py_start is None and how != "direct") or (how == "direct" and ((need_start and py_start is None) or (need_end and end is None)))
    if outcome[0] == "raise":
        if outcome[1] in ALLOWED_INCOMPLETE and incomplete_ok:
            ctx.count("incomplete-reported")
            return
        ctx.fail("times-raises", observed=outcome, expected="alarm times (start/end information is complete)" if not incomplete_ok else ALLOWED_INCOMPLETE)
        return
    try:
        want = R6.alarm_times(py_start, end, model_alarms, normalize)
    except LookupError as e:
        ctx.fail("missing-anchor-not-reported", observed=f"{len(times)} times returned", expected=f"incomplete-information error ({e} missing)")
        return
    # zero DURATION with REPEAT: library yields only the first time ("repeat and duration" truthiness) - the formula gives REPEAT coinciding times.
    idx = {id(a): i for i, a in enumerate(alarm_objs)}
    got_ms = Counter()
    for at in times:
        i = idx.get(id(at.alarm))
        if i is None:
            ctx.fail("foreign-alarm", observed=repr(at.alarm), expected="an alarm of the component")
            return
        got_ms[(i, obs_time(at.trigger))] += 1
    want_ms = Counter((i, obs_time(t)) for i, k, t in want)
    if got_ms != want_ms:
        missing = list((want_ms - got_ms).items())[:4]
        extra = list((got_ms - want_ms).items())[:4]
        ctx.fail("alarm-times", observed={"extra": extra, "missing": missing, "n": sum(got_ms.values())}, expected={"n": sum(want_ms.values())})
        return
    ctx.count("times-compared")
    if sum(want_ms.values()) > len(model_alarms):
        ctx.count("with-repeats")


def obs_time(t):
    """instants for aware values (plus zone key and offset), fields for floating ones and dates"""
    if isinstance(t, datetime) and t.tzinfo is not None:
        return ("aware", int((t - datetime(1970, 1, 1, tzinfo=UTC)).total_seconds()), int(t.utcoffset().total_seconds()))
    return vals.obs(t)


def classify(case, kind, observed, expected):
    if kind in ("alarm-times", "alarm-triggers"):
        return None
    return None


def inconclusive(m, tier):
    c = m["counters"]
    out = []
    for k in ("times-compared", "with-repeats", "incomplete-reported", "multi-alarm-scenarios"):
        if not c.get(k):
            out.append(f"monitor counter {k} is zero")
    return out


TECHNIQUE = "reference alarm arithmetic (R6) vs component.alarms.times / Alarm.triggers over an exhaustive single-alarm sweep and random multi-alarm scenarios"
LEVEL_TEXT = ("Each scenario is built as a real VEVENT/VTODO (API, parsed from independently emitted text, or the Alarms() API) and its computed alarm times "
              "are compared as a multiset of (alarm, time) with a 40-line reference (anchor selection, default end, anchor+TRIGGER+k*DURATION, date anchors, "
              "pytz normalisation); Alarm.triggers is compared per alarm; errors must be the documented incomplete-information classes and only when "
              "information is missing. The single-alarm space is swept completely, multi-alarm scenarios are sampled.")
LEVEL_NOTE = "trusts vmon/refs/alarms.py and Python/pytz/zoneinfo datetime arithmetic (S9)"
