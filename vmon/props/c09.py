"""C09 Parse result is invariant under line endings, BOM, str/bytes, folds, name case."""
import random
import re

from ..gen.model import G, emit
from ..refs import tree
from .c01 import parse, ser

ID = "C09"
RULE = ("well-formed generated calendars (G3: all component kinds, zoned DTSTART/DTEND/DUE/RECURRENCE-ID/RDATE/EXDATE, multi-period FREEBUSY, custom VTIMEZONE "
        "with a per-case unique TZID, subcomponents interleaved with properties; in every third case the VTIMEZONEs are moved behind the components that use them) and the library-canonicalised fixtures, each rewritten by seeded "
        "compositions of 1-7 rewrites: LF for CRLF, leading UTF-8 BOM (bytes), str instead of bytes, re-folding (unfold, then CRLF+SP or CRLF+HTAB between "
        "random characters incl. right after the name and inside multi-octet text), trailing blank lines, random letter case of BEGIN/END, component "
        "names, property names and parameter names; both providers; the R8 observation (incl. zone key and utcoffset) and the re-serialisation of every "
        "variant must equal those of the base text; non-trivial = the variant differs from the base in at least two rewrite kinds or changes name case; "
        "distinct by case hash")
ASSUMPTIONS = ["the BOM is applied to bytes; the str variant is the text decoded with utf-8-sig (S3)", "values are never rewritten",
               "folds are inserted between characters of a content line, never before its first character"]
SOFT_S = {"quick": 14, "thorough": 300}
CASE_TIMEOUT_S = 10
KINDS = ("lf", "bom", "str", "refold", "blank", "case-beginend", "case-compname", "case-propname", "case-paramname")


def run(ctx):
    from .c01 import corpus
    rng = ctx.rng
    files = [d for n, d in corpus() if n.endswith(".ics")]
    n = 0
    while ctx.time_left():
        n += 1
        prov = "zoneinfo" if n % 2 else "pytz"
        if n % 5 == 0 and files:
            ctx.check(("fixture", prov, rng.choice(files), rng.randrange(10 ** 9)), "canonicalised-fixtures")
        else:
            # backslashes in parameter values would let the known placeholder finding turn the next parameter NAME into value text
            g = G(rng, hostile=rng.choice((0.0, 0.05, 0.2)), param_hostile=False)
            late = n % 3 == 0
            ctx.check(("model", prov, g.calendar(), rng.choice((None, rng.randrange(10 ** 6))), rng.randrange(10 ** 9)) + (("late-zones",) if late else ()),
                      "G3-late-zones" if late else "G3")


def randcase(rng, s):
    return "".join(rng.choice((c.lower(), c.upper())) for c in s)


def split_line(line):
    """(name, [param strings], rest-from-colon) using a quote-aware scan (the text is well-formed)"""
    inq = False
    cuts = []
    for i, ch in enumerate(line):
        if ch == '"':
            inq = not inq
        elif not inq and ch == ";":
            cuts.append(i)
        elif not inq and ch == ":":
            cuts.append(i)
            break
    else:
        return None
    pieces = [line[:cuts[0]]] + [line[a + 1:b] for a, b in zip(cuts, cuts[1:])]
    return pieces[0], pieces[1:], line[cuts[-1]:]


def rewrite(rng, text, kinds):
    """text: canonical str with CRLF line ends -> (bytes or str variant, kinds applied)"""
    lines = [l for l in re.sub(r"\r\n[ \t]", "", text).split("\r\n") if l]
    out = []
    for l in lines:
        sp = split_line(l)
        if sp:
            name, params, rest = sp
            if name.upper() in ("BEGIN", "END"):
                if "case-beginend" in kinds:
                    name = randcase(rng, name)
                if "case-compname" in kinds:
                    rest = ":" + randcase(rng, rest[1:])
            elif "case-propname" in kinds:
                name = randcase(rng, name)
            if "case-paramname" in kinds:
                params = [randcase(rng, p.split("=", 1)[0]) + "=" + p.split("=", 1)[1] if "=" in p else p for p in params]
            l = name + "".join(";" + p for p in params) + rest
        out.append(l)
    nl = "\n" if "lf" in kinds else "\r\n"
    if "refold" in kinds:
        only = rng.choice((None, None, " ", "\t"))        # sometimes every fold of the text uses the same white-space character
        folded = []
        for l in out:
            if len(l) > 1 and rng.randrange(3):
                k = rng.randrange(1, min(6, len(l)))
                pos = sorted(rng.sample(range(1, len(l)), min(k, len(l) - 1)))
                if rng.randrange(4) == 0:
                    pos = sorted(set(pos + [l.index(":") if ":" in l and l.index(":") > 0 else 1]))
                parts, prev = [], 0
                for p in pos:
                    parts.append(l[prev:p])
                    prev = p
                parts.append(l[prev:])
                l = parts[0] + "".join(nl + (only or rng.choice((" ", "\t"))) + x for x in parts[1:])
            folded.append(l)
        out = folded
    else:
        from ..gen.model import fold
        out = [fold(l).replace("\r\n", nl) for l in out]
    body = nl.join(out) + nl
    if "blank" in kinds:
        body += nl * rng.randrange(1, 4)
    if "str" in kinds:
        return body
    data = body.encode("utf-8")
    if "bom" in kinds:
        data = b"\xef\xbb\xbf" + data
    return data


def zones_last(text):
    """move every VTIMEZONE block that is a direct child of the outermost component behind its other children (RFC 5545 prescribes no order);
    every parse starts from a fresh provider, so a zone used before its definition reads the same way in the base text and in every variant"""
    lines = [l for l in re.sub(r"\r\n[ \t]", "", text).split("\r\n") if l]
    keep, moved, depth, inside = [], [], 0, False
    for l in lines:
        u = l.upper()
        if u.startswith("BEGIN:"):
            depth += 1
            if depth == 2 and u == "BEGIN:VTIMEZONE":
                inside = True
        (moved if inside else keep).append(l)
        if u.startswith("END:"):
            if depth == 2 and inside:
                inside = False
            depth -= 1
    if not moved or len(keep) < 2 or not keep[-1].upper().startswith("END:"):
        return None
    from ..gen.model import fold
    return "".join(fold(l) + "\r\n" for l in keep[:-1] + moved + keep[-1:])


def check_case(ctx, case):
    if case[0] == "model":
        _, prov, model, inter, rseed = case[:5]
        text = emit(model, random.Random(inter) if inter is not None else None)
        if len(case) > 5:
            moved = zones_last(text)
            if moved is None:
                ctx.count("late-zones:no-zone-to-move")
            else:
                ctx.count("late-zones:moved")
                text = moved
    else:
        _, prov, data, rseed = case
        # fixtures contain non-canonical folds (CR CR LF, blank-line folds): use the library-canonicalised form as base text
        try:
            text = ser(parse(prov, data, 1)).decode("utf-8")
        except Exception:
            ctx.count("fixture-not-usable")
            return
        if not text or re.search(r"\r(?!\n)", text):
            ctx.count("fixture-not-usable")     # a lone CR next to a line end is ambiguous under the LF rewrite
            return
    try:
        base = parse(prov, text.encode("utf-8"), 1)
    except Exception as e:
        ctx.count("base-rejected:" + type(e).__name__)      # whether the base text is accepted is C01/C04's subject
        base = None
    o_base = [tree.obs(c) for c in base] if base is not None else None
    s_base = None
    if base is not None:
        try:
            s_base = ser(base)
        except Exception:
            ctx.count("base-unserialisable")
    rng = random.Random(rseed)
    nvar = 4
    for _ in range(nvar):
        kinds = set(rng.sample(KINDS, rng.randrange(1, 8)))
        if "bom" in kinds and "str" in kinds:
            kinds.discard(rng.choice(("bom", "str")))
        variant = rewrite(rng, text, kinds)
        ctx.nontrivial(len(kinds) >= 2 or any(k.startswith("case") for k in kinds))
        for k in kinds:
            ctx.count("rewrite:" + k)
        try:
            got = parse(prov, variant, 1)
        except Exception as e:
            if base is None:
                continue
            ctx.fail("variant-rejected", observed=(sorted(kinds), f"{type(e).__name__}: {e}"[:300]), expected="accepted like the base text",
                     detail=variant[:1500] if isinstance(variant, (str, bytes)) else None)
            return
        if base is None:
            ctx.fail("variant-accepted-base-rejected", observed=sorted(kinds), expected="rejected like the base text")
            return
        o = [tree.obs(c) for c in got]
        if o != o_base:
            d = next((tree.diff(a, b) for a, b in zip(o, o_base) if a != b), f"{len(o)} vs {len(o_base)} components")
            ctx.fail("variant-tree-differs", observed=(sorted(kinds), d[:600]), expected="the tree of the base text", detail=variant[:1500])
            return
        if s_base is not None:
            try:
                s = ser(got)
            except Exception as e:
                ctx.fail("variant-unserialisable", observed=(sorted(kinds), f"{type(e).__name__}: {e}"), expected="same bytes as base")
                return
            if s != s_base:
                ctx.fail("variant-bytes-differ", observed=sorted(kinds), expected="identical re-serialisation")
                return
        ctx.count("variants-equal")


def inconclusive(m, tier):
    c = m["counters"]
    out = [f"rewrite {k} never applied" for k in KINDS if not c.get("rewrite:" + k)]
    if not c.get("variants-equal"):
        out.append("no variant reached the comparison")
    return out


TECHNIQUE = "metamorphic monitor: tree observation (with zone key/utcoffset) and re-serialisation of rewritten text vs base text"
LEVEL_TEXT = ("Each generated or canonicalised calendar is parsed as is and under four seeded compositions of the RFC-insignificant rewrites; observations "
              "(which include zone key and utcoffset, so a silently lost zone is seen) and re-serialised bytes must be identical, and acceptance must not "
              "change. Sampled over calendars and compositions, both providers.")
LEVEL_NOTE = "trusts the rewrite implementation in vmon/props/c09.py (values are never touched) and R8"
