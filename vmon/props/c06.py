"""C06 Folding: lines <= 75 octets, no split characters, exact unfolding."""
from .. import contracts
from ..refs import fold as R3

ID = "C06"
RULE = ("content lines from (a) an alignment sweep: ASCII prefix of 0..160 octets x next character of 1-4 octets x 6 tails, "
        "(b) width triples straddling octets 70-78 and 144-152, (c) SP/HTAB/CR at the fold point, (d) seeded random lines over "
        "1-4 octet characters, SP, HTAB, CR, combining marks, U+0085, U+2028 (up to 10k characters), (e) multi-line streams, "
        "(f) API-built components with long non-ASCII values and parameters; non-trivial = the logical line exceeds 75 octets "
        "(so at least one fold is produced); distinct by case hash")
ASSUMPTIONS = ["R3 (vmon/refs/fold.py) is the RFC 5545 3.1 unfolding rule",
               "lines containing LF are outside the property's domain (the library refuses them)"]
SOFT_S = {"quick": 12, "thorough": 150}
HARD_S = {"quick": 600, "thorough": 7200}

W = {1: "b", 2: "é", 3: "€", 4: "\U0001F600"}
TAILS = ["", "z" * 90, "é" * 50, "€" * 40, "\U0001F600" * 30, "aé€\U0001F600 \t" * 20]
RANDOM_ALPHABET = (list("abcXYZ019:;,=\"\\") + [" ", "\t", "\r", "é", "ß", "́", "\u0085", " ",
                   "€", "中", "﻿", "\U0001F600", "\U00010348", "\U000E0001"])


def gen_enumerated(ctx):
    i = 0
    for n in range(0, 161):
        for w in (1, 2, 3, 4):
            for t, tail in enumerate(TAILS):
                if ctx.mine(i):
                    yield "align", ("line", "a" * n + W[w] + tail)
                i += 1
    for base in (70, 144):
        for off in range(0, 9):
            for w1 in (1, 2, 3, 4):
                for w2 in (1, 2, 3, 4):
                    for w3 in (1, 2, 3, 4):
                        if ctx.mine(i):
                            yield "triples", ("line", "a" * (base + off) + W[w1] + W[w2] + W[w3] + "tail" + W[w2] * 40)
                        i += 1
    for n in range(66, 82):
        for ch in (" ", "\t", "\r", "  ", " \t", "\r\r"):
            for nxt in ("b", "é", " ", "\t"):
                for pre in ("a", "é"):
                    if ctx.mine(i):
                        yield "ws", ("line", pre * (n if pre == "a" else n // 2) + ch + nxt + "c" * 100)
                    i += 1


def rand_line(rng, maxlen):
    n = rng.choice((rng.randrange(0, 90), rng.randrange(60, 200), rng.randrange(0, maxlen)))
    mode = rng.randrange(4)
    if mode == 0:
        alpha = RANDOM_ALPHABET
    elif mode == 1:
        alpha = ["a", "é", "€", "\U0001F600"]
    elif mode == 2:
        alpha = list("abc def\tg\r") + ["́"]
    else:
        alpha = ["a"] * 20 + RANDOM_ALPHABET
    s = "".join(rng.choice(alpha) for _ in range(n))
    return s


def run(ctx):
    contracts.attach_fold()
    for stream, case in gen_enumerated(ctx):
        ctx.check(case, stream, enum=True)
    ctx.exhaustive["align+triples+ws"] = True
    rng = ctx.rng
    maxlen = 700 if ctx.quick else 10000
    n = 0
    while ctx.time_left():
        n += 1
        r = n % 10
        if n % 97 == 0:
            # few characters, many octets: short names in front of 14-30 four-octet characters (line, stream and component path)
            wide = rng.choice(("\U0001F600", "\U00010348")) * rng.randrange(14, 31)
            ctx.check(("line", rng.choice(("N:", "UID:", "TZID:", "X:")) + wide), "random")
            ctx.check(("lines", (rng.choice(("NAME:", "COLOR:", "X:")) + wide, "L2:" + wide)), "streams")
            ctx.check(("component", wide, wide[: rng.randrange(1, len(wide))], rng.randrange(0, 5)), "components")
        if r < 6:
            if n % 4 == 0:
                # no name in front: the line starts with whatever character comes first (not SP/HTAB, S23), e.g. U+FEFF or a combining mark
                ctx.check(("line", (rng.choice(("\ufeff", "\u0301", "\u200b", "é", "", "")) + rand_line(rng, maxlen)).lstrip(" \t")), "random")
            else:
                ctx.check(("line", "N:" + rand_line(rng, maxlen)), "random")
        elif r < 8:
            k = rng.randrange(2, 6)
            ctx.check(("lines", tuple("L%d;P=x:" % j + rand_line(rng, maxlen // 2) for j in range(k))), "streams")
        else:
            ctx.check(("component", rand_line(rng, 300).replace("\r", ""), rand_line(rng, 200).replace("\r", ""),
                       rng.randrange(0, 80)), "components")
    for k, v in contracts.EVALS.items():
        ctx.count("contract_evals:" + k, v)
    if not ctx.quick and ctx.shard == 0:
        ctx.check(("suite-under-contracts",), "repository-suite-under-contracts", enum=True)


def check_case(ctx, case):
    from icalendar.parser import Contentline, Contentlines
    kind = case[0]
    if kind == "line":
        s = case[1]
        octets = len(s.encode("utf-8"))
        ctx.nontrivial(octets > 75)
        if octets > 75 and not s.isascii():
            ctx.count("class:nonascii-folded")
        if octets > 75 and s.isascii():
            ctx.count("class:ascii-folded")
        cl = Contentline(s)
        b = cl.to_ical()
        probs = R3.problems_single(b, s)
        if probs:
            ctx.fail("fold-single", observed=probs, expected="<=75 octets, whole characters, SP continuation, exact unfold")
        back = Contentline.from_ical(b)
        if s.startswith("\ufeff"):
            # read back as a byte stream of its own, the first character is a byte-order mark (C09): only the reference unfolding above decides
            ctx.count("library-unfold:skipped-leading-bom")
        elif str(back) != s:
            ctx.fail("library-unfold", observed=str(back), expected=s)
    elif kind == "lines":
        lines = list(case[1])
        ctx.nontrivial(any(len(l.encode()) > 75 for l in lines))
        cls = Contentlines([Contentline(l) for l in lines] + [""])
        data = cls.to_ical()
        probs = R3.problems_stream(data, lines)
        if probs:
            ctx.fail("fold-stream", observed=probs, expected="each line folded per RFC, CRLF terminated")
        back = Contentlines.from_ical(data)
        if [str(l) for l in back] != lines + [""]:
            ctx.fail("library-unfold-stream", observed=[str(l) for l in back][:6], expected=lines[:6])
    elif kind == "component":
        from icalendar import Event, Calendar, vCalAddress
        _, summary, pval, pad = case
        cal = Calendar()
        ev = Event()
        ev.add("summary", summary)
        ev.add("description", "d" * pad + summary, parameters={"ALTREP": pval, "X-P": [pval, "q" * pad]})
        a = vCalAddress("mailto:" + "m" * pad + "@example.com")
        a.params["CN"] = pval
        ev.add("attendee", a)
        ev.add("x-long", "x" * pad + pval)
        ev.add("uid", summary)                  # short names too: few characters in front of the value
        ev.add("x", pval)
        cal.add("name", summary)
        cal.add_component(ev)
        ctx.nontrivial(True)
        data = cal.to_ical()
        logical = [str(l) for l in cal.content_lines() if l]
        probs = R3.problems_stream(data, logical)
        if probs:
            ctx.fail("fold-component", observed=probs, expected="each line folded per RFC, CRLF terminated")
    elif kind == "suite-under-contracts":
        return suite_under_contracts(ctx)
    else:
        raise ValueError(kind)
    for name, detail in contracts.drain():
        ctx.fail("contract:" + name, observed=detail, expected="postcondition of R3")


def suite_under_contracts(ctx):
    """the repository's own tests as an additional workload: every fold/escape the suite performs is checked by the contracts"""
    import json
    import os
    import subprocess
    from .. import paths
    ctx.nontrivial(True)
    report = os.path.join(paths.WORK, f"c06-suite-{os.getpid()}.json")
    env = dict(os.environ, VMON_CONTRACT_REPORT=report, PYTHONHASHSEED="0")
    env["PYTHONPATH"] = os.pathsep.join([paths.REPO_SRC, paths.HERE, paths.DEPS])
    r = subprocess.run([paths.PYTHON, "-m", "pytest", "-q", "-p", "no:cacheprovider", "-p", "vmon.pytest_plugin", "--timeout=900",
                        os.path.join(paths.REPO_SRC, "icalendar", "tests")], cwd=paths.REPO, env=env, capture_output=True, text=True, timeout=3000)
    if not os.path.exists(report):
        ctx.count("suite-under-contracts:no-report")
        return
    with open(report) as f:
        rep = json.load(f)
    os.remove(report)
    for k, v in rep["evals"].items():
        ctx.count("suite-contract-evals:" + k, v)
    for name, detail in rep["violations"]:
        ctx.fail("contract-in-suite:" + name, observed=detail, expected="postcondition of R3 / R1")


def inconclusive(m, tier):
    out = []
    c = m["counters"]
    for name in ("foldline", "Contentline.to_ical", "Contentlines.to_ical", "Component.to_ical"):
        if not c.get("contract_evals:" + name):
            out.append(f"contract on {name} was never evaluated")
    if not c.get("class:nonascii-folded"):
        out.append("non-ASCII branch of foldline never exercised with a fold")
    if not c.get("class:ascii-folded"):
        out.append("ASCII fast path never exercised with a fold")
    return out

TECHNIQUE = "icontract postconditions (R3 unfold model) on foldline/Contentline/Contentlines/Component.to_ical + boundary-alignment sweep"
LEVEL_TEXT = ("Every serialised line produced by an exhaustive alignment sweep (prefix 0-160 octets x character widths 1-4 x tails, width triples "
              "around octets 75 and 150, whitespace/CR at the fold point) and by seeded random Unicode lines, streams and components is checked "
              "against an independent RFC 5545 3.1 unfolding model, both by the harness and by postconditions installed on the real functions. "
              "Held = no execution observed violated it; the sweep part is complete within its bounds.")
LEVEL_NOTE = "trusts vmon/refs/fold.py (12 lines) and CPython's UTF-8 codec; lines with LF are out of domain; python -O not explored"
