"""C16 Start/end/duration of events and todos obey RFC rules after any edit history."""
import itertools
from datetime import date, datetime, timedelta

from .. import vals

ID = "C16"
RULE = ("edit histories over {start=, end=, DTSTART=, DTEND|DUE=, DURATION= (value, None, wrong kind), del DTSTART/DTEND|DUE/DURATION, add(name, value)} on "
        "Event and Todo (and Journal start), values: date, naive, UTC, two DST zones (incl. wall times next to a transition), durations of whole days / "
        "with time of day / zero; exhaustive over a 15-operation alphabet up to length 3 (thorough 4) x {Event, Todo} x {zoneinfo, pytz}; seeded random "
        "histories to length 12; plus parsed states from all combinations (incl. duplicates) of DTSTART/DTEND|DUE/DURATION lines. After every operation the "
        "presence of the three properties, the values of DTSTART/DTEND|DUE/DURATION and the computed start/end/duration (or the documented error class) "
        "are compared with a 3-slot reference state; non-trivial = at least two operations touch different slots; distinct by construction / case hash")
ASSUMPTIONS = ["end - start == duration is asserted only when Python's own subtraction of the reference values is defined (S4)",
               "a state that is both invalid and lacks a start may be reported by either documented error",
               "negative DURATION values are not generated"]
SOFT_S = {"quick": 10, "thorough": 200}

D1 = ("d", 2024, 3, 30)
D2 = ("d", 2024, 4, 2)
N1 = ("dt", 2024, 3, 30, 10, 0, 0, None)
N2 = ("dt", 2024, 3, 31, 11, 30, 0, None)
U1 = ("dt", 2024, 3, 30, 9, 0, 0, "UTC")
U2 = ("dt", 2024, 3, 31, 9, 0, 0, "UTC")
B1 = ("dt", 2024, 3, 31, 1, 30, 0, "zone:Europe/Berlin")        # 30 min before the spring-forward gap
B2 = ("dt", 2024, 3, 31, 3, 30, 0, "zone:Europe/Berlin")
Y1 = ("dt", 2024, 11, 3, 0, 30, 0, "zone:America/New_York")     # before the fall-back fold
Y2 = ("dt", 2024, 11, 3, 4, 0, 0, "zone:America/New_York")
TD_DAY, TD_HOUR, TD_MIX, TD_ZERO, TD_WEEK = ("td", 86400), ("td", 3600), ("td", 90000), ("td", 0), ("td", 604800)
STARTS = [D1, N1, U1, B1, Y1]
ENDS = [D2, N2, U2, B2, Y2]
TD_US = ("td", 86400.000001)          # one day and one microsecond (no wire form; a timedelta argument all the same)
DURS = [TD_DAY, TD_HOUR, TD_MIX, TD_ZERO, TD_WEEK, TD_US]
WRONG = [5, "20240101", ("td", 60)]


def small_ops():
    return [("set", "start", D1), ("set", "start", B1), ("set", "DTSTART", None),
            ("set", "end", D2), ("set", "end", B2), ("set", "END", N2), ("set", "end", None),
            ("set", "DURATION", TD_DAY), ("set", "DURATION", TD_HOUR), ("set", "DURATION", None),
            ("del", "DTSTART"), ("del", "END"), ("del", "DURATION"),
            ("add", "END", U2), ("add", "DURATION", TD_HOUR)]


def rand_op(rng):
    r = rng.randrange(20)
    if r < 4:
        return ("set", rng.choice(("start", "DTSTART")), rng.choice(STARTS + ENDS + [None]))
    if r < 8:
        return ("set", rng.choice(("end", "END")), rng.choice(ENDS + STARTS + [None]))
    if r < 11:
        return ("set", "DURATION", rng.choice(DURS + [None]))
    if r < 13:
        return ("del", rng.choice(("DTSTART", "END", "DURATION")))
    if r < 15:
        return ("set", rng.choice(("start", "end", "DTSTART", "END")), rng.choice(WRONG))
    if r < 16:
        return ("set", "DURATION", rng.choice((5, D1, N1, "PT1H")))
    if r < 18:
        return ("add", rng.choice(("DTSTART", "END", "DURATION")), None)   # value chosen by kind below
    return ("add", "END", rng.choice(ENDS))


def fix_add(rng, op):
    if op[0] == "add" and op[2] is None:
        v = rng.choice(STARTS) if op[1] == "DTSTART" else rng.choice(ENDS) if op[1] == "END" else rng.choice(DURS)
        return ("add", op[1], v)
    return op


def run(ctx):
    ops = small_ops()
    L = 3 if ctx.quick else 4
    i = 0
    for n in range(1, L + 1):
        for hist in itertools.product(ops, repeat=n):
            for comp in ("VEVENT", "VTODO"):
                for prov in ("zoneinfo", "pytz"):
                    if ctx.mine(i):
                        ctx.check(("history", comp, prov, hist), "exhaustive", enum=True)
                    i += 1
    ctx.exhaustive[f"15-operation alphabet, length<={L}, both components, both providers"] = True
    # parsed states: every combination of 0-2 DTSTART, 0-2 end, 0-2 DURATION lines
    line_vals = {"DTSTART": [D1, N1, B1], "END": [D2, N2, B2], "DURATION": [TD_DAY, TD_HOUR]}
    for comp in ("VEVENT", "VTODO"):
        for prov in ("zoneinfo", "pytz"):
            for ns in range(3):
                for ne in range(3):
                    for nd in range(3):
                        for sv in itertools.product(line_vals["DTSTART"], repeat=ns):
                            for ev in itertools.product(line_vals["END"], repeat=ne):
                                for dv in itertools.product(line_vals["DURATION"], repeat=nd):
                                    if ctx.mine(i):
                                        ctx.check(("parsed", comp, prov, sv, ev, dv), "parsed", enum=True)
                                    i += 1
    ctx.exhaustive["parsed combinations"] = True
    for prov in ("zoneinfo", "pytz"):
        for v in STARTS + [None] + WRONG:
            if ctx.mine(i):
                ctx.check(("journal", prov, v), "journal", enum=True)
            i += 1
    rng = ctx.rng
    while ctx.time_left():
        hist = tuple(fix_add(rng, rand_op(rng)) for _ in range(rng.randrange(1, 13)))
        ctx.check(("history", rng.choice(("VEVENT", "VTODO")), rng.choice(("zoneinfo", "pytz")), hist), "random")


# ---------------------------------------------------------------- reference state
class Ref:
    """Three slots; each is a list of Python values (0, 1 or more entries)."""

    def __init__(self):
        self.s, self.e, self.d = [], [], []

    def slot(self, name):
        return {"DTSTART": self.s, "END": self.e, "DURATION": self.d}[name]

    def set(self, name, value):
        sl = self.slot(name)
        sl[:] = [value]
        if name == "END":
            self.d[:] = []
        elif name == "DURATION":
            self.e[:] = []

    def invalid(self):
        """Is the state one the RFC forbids (must be reported by InvalidCalendar)?"""
        if len(self.s) > 1 or len(self.e) > 1 or len(self.d) > 1:
            return True
        if self.e and self.d:
            return True
        if self.s and self.e and (type(self.s[0]) is date) != (type(self.e[0]) is date):
            return True
        if self.s and self.d and type(self.s[0]) is date and self.d[0].seconds != 0:
            return True
        return False

    def expect(self, what):
        """-> ("value", v) | ("raise", {allowed exception names})"""
        inv = self.invalid()
        nostart = not self.s
        if what == "start":
            if inv and nostart:
                return ("raise", {"InvalidCalendar", "IncompleteComponent"})
            if inv:
                return ("raise", {"InvalidCalendar"})
            if nostart:
                return ("raise", {"IncompleteComponent"})
            return ("value", self.s[0])
        if what == "end":
            if inv:
                return ("raise", {"InvalidCalendar", "IncompleteComponent"} if nostart else {"InvalidCalendar"})
            if self.e:
                return ("value", self.e[0])
            if nostart:
                return ("raise", {"IncompleteComponent"})
            if self.d:
                return ("value", self.s[0] + self.d[0])
            if type(self.s[0]) is date:
                return ("value", self.s[0] + timedelta(days=1))
            return ("value", self.s[0])
        raise ValueError(what)


ERRS = ("InvalidCalendar", "IncompleteComponent")


def read(comp, attr):
    try:
        return ("value", getattr(comp, attr))
    except Exception as e:
        return ("raise", type(e).__name__, str(e))


def same(a, b):
    return vals.obs(a) == vals.obs(b)


def check_case(ctx, case):
    import icalendar
    kind = case[0]
    if kind == "journal":
        return check_journal(ctx, case)
    comp_name, prov = case[1], case[2]
    vals.use_provider(prov)
    cls = icalendar.Event if comp_name == "VEVENT" else icalendar.Todo
    endname = "DTEND" if comp_name == "VEVENT" else "DUE"
    ref = Ref()
    if kind == "parsed":
        _, _, _, sv, ev, dv = case
        ctx.nontrivial(len(sv) + len(ev) + len(dv) >= 2)
        comp = cls()
        for v in sv:
            comp.add("DTSTART", vals.py(v))
            ref.s.append(vals.py(v))
        for v in ev:
            comp.add(endname, vals.py(v))
            ref.e.append(vals.py(v))
        for v in dv:
            comp.add("DURATION", vals.py(v))
            ref.d.append(vals.py(v))
        text = comp.to_ical()
        try:
            comp = cls.from_ical(text)
        except ValueError as e:
            ctx.fail("parse-rejected", observed=str(e), expected="component with the given lines")
            return
        observe(ctx, comp, ref, endname, ("parsed",))
        return
    hist = case[3]
    touched = {("DTSTART" if op[1] in ("start", "DTSTART") else "END" if op[1] in ("end", "END") else "DURATION") for op in hist}
    ctx.nontrivial(len(hist) >= 2 and len(touched) >= 2)
    comp = cls()
    for step, op in enumerate(hist):
        name = op[1]
        slot = "DTSTART" if name in ("start", "DTSTART") else "END" if name in ("end", "END") else "DURATION"
        attr = name if name in ("start", "end", "DTSTART", "DURATION") else endname
        if op[0] == "set":
            v = vals.py(op[2])
            want_type_error = (v is not None) and (not isinstance(v, date) if slot != "DURATION" else not isinstance(v, timedelta))
            try:
                setattr(comp, attr, v)
                raised = None
            except Exception as e:
                raised = type(e).__name__
            if want_type_error:
                if raised != "TypeError":
                    ctx.fail("setter-wrong-kind", observed=(step, op, raised), expected="TypeError")
                    return
            else:
                if raised is not None:
                    ctx.fail("setter-raises", observed=(step, op, raised), expected="no exception")
                    return
                if v is None:
                    ref.slot(slot)[:] = []
                else:
                    ref.set(slot, v)
        elif op[0] == "del":
            try:
                delattr(comp, attr if name != "END" else endname)
            except Exception as e:
                ctx.fail("deleter-raises", observed=(step, op, type(e).__name__), expected="no exception")
                return
            ref.slot(slot)[:] = []
        elif op[0] == "add":
            v = vals.py(op[2])
            comp.add(slot if slot != "END" else endname, v)
            ref.slot(slot).append(v)
        if not observe(ctx, comp, ref, endname, (step, op)):
            return


def observe(ctx, comp, ref, endname, where):
    """Quiescent-point check of the component against the reference state."""
    ctx.count("quiescent-checks")
    # presence
    pres = ("DTSTART" in comp, endname in comp, "DURATION" in comp)
    want = (bool(ref.s), bool(ref.e), bool(ref.d))
    if pres != want:
        ctx.fail("presence", observed=(where, dict(zip(("DTSTART", endname, "DURATION"), pres))), expected=want)
        return False
    # upper-case single-property getters
    for attr, sl in (("DTSTART", ref.s), (endname, ref.e), ("DURATION", ref.d)):
        got = read(comp, attr)
        if len(sl) > 1:
            if not (got[0] == "raise" and got[1] == "InvalidCalendar"):
                ctx.fail("multi-not-reported", observed=(where, attr, got), expected="InvalidCalendar")
                return False
        elif len(sl) == 0:
            if got != ("value", None):
                ctx.fail("absent-getter", observed=(where, attr, got), expected=None)
                return False
        else:
            if got[0] != "value" or not same(got[1], sl[0]):
                ctx.fail("getter-value", observed=(where, attr, got[:2]), expected=vals.obs(sl[0]))
                return False
    # computed start / end
    results = {}
    for what in ("start", "end"):
        exp = ref.expect(what)
        got = read(comp, what)
        results[what] = got
        if exp[0] == "raise":
            if got[0] != "raise" or got[1] not in exp[1]:
                ctx.fail("state-not-reported", observed=(where, what, got[:2]), expected=sorted(exp[1]))
                return False
        else:
            if got[0] == "raise":
                ctx.fail("getter-raises", observed=(where, what, got), expected=vals.obs(exp[1]))
                return False
            if not same(got[1], exp[1]):
                ctx.fail("computed-" + what, observed=(where, vals.obs(got[1])), expected=vals.obs(exp[1]))
                return False
    # duration
    es, ee = ref.expect("start"), ref.expect("end")
    got = read(comp, "duration")
    if es[0] == "raise" or ee[0] == "raise":
        allowed = (es[1] if es[0] == "raise" else set()) | (ee[1] if ee[0] == "raise" else set())
        if got[0] != "raise" or got[1] not in allowed:
            ctx.fail("state-not-reported", observed=(where, "duration", got[:2]), expected=sorted(allowed))
            return False
    else:
        try:
            want_dur = ee[1] - es[1]
        except TypeError:
            ctx.count("out_of_domain_mixed_awareness")
            if got[0] == "raise" and got[1] not in ("TypeError",) + ERRS:
                ctx.fail("getter-raises", observed=(where, "duration", got), expected="TypeError or documented error")
                return False
            return True
        if got[0] == "raise":
            ctx.fail("getter-raises", observed=(where, "duration", got), expected=want_dur)
            return False
        if got[1] != want_dur:
            ctx.fail("duration-identity", observed=(where, got[1]), expected=want_dur)
            return False
        # the identities of the statement, on what the component itself reports
        end_v, start_v = results["end"][1], results["start"][1]
        if end_v - start_v != got[1]:
            ctx.fail("duration-identity", observed=(where, "end - start", end_v - start_v), expected=got[1])
            return False
        if ref.d and not ref.e and not same(end_v, start_v + ref.d[0]):
            ctx.fail("end-is-start-plus-duration", observed=(where, vals.obs(end_v)), expected=vals.obs(start_v + ref.d[0]))
            return False
        ctx.count("identity-checks")
    return True


def check_journal(ctx, case):
    import icalendar
    _, prov, v = case
    vals.use_provider(prov)
    ctx.nontrivial(True)
    j = icalendar.Journal()
    val = vals.py(v)
    wrong = val is not None and not isinstance(val, date)
    try:
        j.start = val
        raised = None
    except Exception as e:
        raised = type(e).__name__
    if wrong:
        if raised != "TypeError":
            ctx.fail("setter-wrong-kind", observed=raised, expected="TypeError")
        return
    if raised:
        ctx.fail("setter-raises", observed=raised, expected="no exception")
        return
    if val is None:
        for what in ("start", "end"):
            got = read(j, what)
            if got[:2] != ("raise", "IncompleteComponent"):
                ctx.fail("state-not-reported", observed=(what, got[:2]), expected="IncompleteComponent")
        return
    for what in ("start", "end", "DTSTART"):
        got = read(j, what)
        if got[0] != "value" or not same(got[1], val):
            ctx.fail("journal-" + what, observed=got[:2], expected=vals.obs(val))
    if j.duration != timedelta(0):
        ctx.fail("journal-duration", observed=j.duration, expected=timedelta(0))


def inconclusive(m, tier):
    c = m["counters"]
    out = []
    if not c.get("quiescent-checks"):
        out.append("no quiescent-point check evaluated")
    if not c.get("identity-checks"):
        out.append("the duration identities were never evaluated")
    return out


TECHNIQUE = "3-slot reference state updated by the same edit history; invariants and getters compared at every quiescent point"
LEVEL_TEXT = ("Every operation of every generated edit history (exhaustive to the stated length, random beyond) is applied to a real Event/Todo and to a "
              "3-slot reference state implementing the RFC 5545 exclusivity and default-end rules; after each operation property presence, the single-value "
              "getters, start/end/duration (or the documented error class) and the identities end-start==duration, end==start+DURATION are compared.")
LEVEL_NOTE = "trusts the 60-line reference state in vmon/props/c16.py and Python's datetime arithmetic; mixed-awareness subtraction is out of domain (S4)"
