"""G5: structured mutators over calendar bytes (seeded)."""

TOKENS = [b"BEGIN:", b"END:", b"BEGIN:VEVENT\r\n", b"END:VEVENT\r\n", b"BEGIN:VTIMEZONE\r\n", b"END:VTIMEZONE\r\n", b"BEGIN:VCALENDAR\r\n", b"END:VCALENDAR\r\n",
          b";TZID=", b";VALUE=DATE", b";VALUE=PERIOD", b"\\", b"\\,", b"\\;", b"\\n", b"%2C", b"%3A", b'"', b":", b";", b",", b"=", b"\r\n", b"\n", b"\r\n ", b"\t",
          b"DTSTART:", b"DTSTART;TZID=Europe/Berlin:", b"RRULE:FREQ=", b"RDATE:", b"FREEBUSY:", b"TZOFFSETTO:", b"TZOFFSETFROM:+0100\r\n", b"20240101T000000", b"Z",
          b"/", b"P1D", b"PT", b"-", b"+", b"0", b"99", b"\x00", b"\xff", b"\xc3", b"\xe2\x82\xac", b"X-COMMENT:x\r\n", b"TZID:", b"Europe/Berlin", b"UTC",
          b"BEGIN:STANDARD\r\n", b"END:STANDARD\r\n", b"BEGIN:DAYLIGHT\r\n", b"BEGIN:VALARM\r\n", b"END:VALARM\r\n", b"TRIGGER:", b"GEO:1;2\r\n", b"CATEGORIES:a,b\r\n"]


def split_lines(data):
    return data.split(b"\r\n") if b"\r\n" in data else data.split(b"\n")


def mutate(rng, data, rounds=None):
    rounds = rounds or rng.choice((1, 1, 1, 2, 3))
    for _ in range(rounds):
        data = one(rng, data)
    return data[:8192]


def one(rng, data):
    if not data:
        return rng.choice(TOKENS)
    k = rng.randrange(12)
    lines = split_lines(data)
    nl = b"\r\n" if b"\r\n" in data else b"\n"
    if k == 0:
        i = rng.randrange(len(data))
        return data[:i] + bytes([data[i] ^ (1 << rng.randrange(8))]) + data[i + 1:]
    if k == 1:
        i = rng.randrange(len(data))
        return data[:i] + rng.choice(TOKENS) + data[i:]
    if k == 2 and len(lines) > 1:
        i, j = rng.randrange(len(lines)), rng.randrange(len(lines))
        lines[i], lines[j] = lines[j], lines[i]
        return nl.join(lines)
    if k == 3 and lines:
        i = rng.randrange(len(lines))
        return nl.join(lines[:i] + [lines[i]] + lines[i:])
    if k == 4 and len(lines) > 1:
        i = rng.randrange(len(lines))
        return nl.join(lines[:i] + lines[i + 1:])
    if k == 5:
        return data[:rng.randrange(len(data))]
    if k == 6:
        i = rng.randrange(len(data))
        j = min(len(data), i + rng.randrange(1, 20))
        return data[:i] + data[j:]
    if k == 7 and lines:
        # insert a token at a line start or right after the name
        i = rng.randrange(len(lines))
        l = lines[i]
        p = l.find(b":")
        pos = rng.choice((0, p if p >= 0 else 0, (p + 1) if p >= 0 else len(l), len(l)))
        lines[i] = l[:pos] + rng.choice(TOKENS).strip(b"\r\n") + l[pos:]
        return nl.join(lines)
    if k == 8:
        depth = rng.randrange(1, 8)
        name = rng.choice((b"X-NEST", b"VEVENT", b"VCALENDAR", b"VTODO"))
        return (b"BEGIN:" + name + nl) * depth + data + (b"END:" + name + nl) * depth
    if k == 9 and lines:
        i = rng.randrange(len(lines))
        l = lines[i]
        p = l.find(b":")
        if p >= 0:
            lines[i] = l[:p + 1] + rng.choice((b"", b"garbage", b"99999999T999999", b"-P", b"+9999", b"1;", b"FREQ=BOGUS", l[p + 1:] + l[p + 1:], b"\\" + l[p + 1:]))
        return nl.join(lines)
    if k == 10:
        return data.replace(b"\r\n", rng.choice((b"\n", b"\r\n\r\n", b"\r\r\n")), rng.randrange(1, 4))
    i = rng.randrange(len(data))
    return data[:i] + bytes([rng.randrange(256)]) + data[i:]
