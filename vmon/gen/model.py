"""G3/G4: seeded calendar models, an independent RFC 5545 emitter, and an API builder.

A model is literal-evaluable:
  component = ("comp", NAME, (prop, ...), (component, ...))
  prop      = (NAME, ((param-name, value-or-("l", v1, v2..)), ...), value-descriptor)
  value-descriptor: ("text", s) ("uri", s) ("caladdress", s) ("int", n) ("geo", lat, lon) ("d", y, m, d)
      ("dt", y, m, d, H, M, S, tz)  tz: None | "UTC" | "zone:<olson id>" | "custom:<tzid defined by a VTIMEZONE of the model>"
      ("td", seconds) ("period", dt, dt-or-td) ("datelist", (d-or-dt-or-period, ...)) ("freebusy", (period, ...))
      ("recur", ((PART, (item, ...)), ...)) ("categories", (s, ...)) ("utcoffset", seconds)
The emitter is written from the RFC and shares nothing with icalendar; what the emitted text denotes is
computed by vmon/refs/refparse.py.
"""
from ..refs import text as R1

ZONES = ["Europe/Berlin", "America/New_York", "Asia/Kolkata", "Australia/Lord_Howe", "America/Sao_Paulo", "Pacific/Apia", "Africa/Cairo",
         "Europe/London", "Asia/Tokyo", "America/Argentina/Buenos_Aires", "Europe/Dublin", "Pacific/Chatham"]
ALIAS_ZONES = ["/Europe/Berlin", "/America/New_York", "Eastern Standard Time", "W. Europe Standard Time", "Tokyo Standard Time", "GMT Standard Time"]
WORDS = ["meeting", "Lunch", "x", "Café", "日本語", "naïve", "ok", "A B", "1:1", "50%", "a=b", "\U0001F600", "Österreich", "tab\there", "q'uote", "dash-ed", "zero\ufeffwidth", "\ufeffbom-first", "nb\u00a0sp", "ls\u2028ps\u2029", "c1\u0085",
         # text that is not in Unicode normal form C: it has to come back code point for code point
         "de\u0301compose\u0301", "\u212bngstro\u0308m", "\u1112\u1161\u11ab", "\u0958\u2126"]
CRIT = ["\\", "n", "N", ";", ",", ":", '"', "%", "2", "C", "\n", " ", "a", "%2C", "\\n", "\\;", "\\\\"]
PARAM_POOL = ["LANGUAGE", "X-A", "ALTREP", "CN", "ROLE", "PARTSTAT", "X-LONG-PARAMETER-NAME", "DIR", "MEMBER", "RSVP", "FMTTYPE", "x-lower"]
TEXT_PROPS = ["SUMMARY", "DESCRIPTION", "LOCATION", "COMMENT", "CONTACT", "X-VERIF", "X-WR-NOTE", "STATUS", "CLASS", "TRANSP",
              # names that a "natural" (numeric) ordering would tie or reorder: zero padding, digit runs
              "X-ROOM-1", "X-ROOM-01", "X-ROOM-10", "X-ROOM-2"]


class G:
    def __init__(self, rng, hostile=0.15, custom_tz=True, unknown=True, max_depth=4, api_safe=False, param_hostile=True, multi_resources=False, api_custom_tz=False):
        self.rng = rng
        self.hostile = hostile
        self.custom_tz = (custom_tz and not api_safe) or api_custom_tz
        self.unknown = unknown
        self.max_depth = max_depth
        self.api_safe = api_safe
        self.param_hostile = param_hostile
        self.multi_resources = multi_resources and not api_safe
        self.custom_ids = []
        self.uid = 0

    # ---- scalars
    def text(self, maxwords=4):
        r = self.rng
        parts = []
        for _ in range(r.randrange(0, maxwords + 1)):
            if r.random() < self.hostile:
                parts.append("".join(r.choice(CRIT) for _ in range(r.randrange(1, 4))))
            else:
                parts.append(r.choice(WORDS))
        s = " ".join(parts)
        if r.randrange(12) == 0:
            s = s + " " + "long " * r.randrange(10, 40)
        return s

    def param_value(self):
        r = self.rng
        k = r.randrange(8)
        if k == 0:
            return ""
        if k == 1:
            return r.choice(("a,b", "x;y", "m:n", "sp ace", "q'", "ä,ö", "1=2", "^n", "(paren)"))
        if k == 2 and self.param_hostile and r.random() < self.hostile * 2:
            return r.choice(("a\\", "\\,b", "%3A", "x\\;y", "\\\\"))
        return r.choice(("en", "CHAIR", "ACCEPTED", "mailto:a@example.com", "text/plain", "http://example.com/a?b=c", "Jane Doe", "TRUE", "x"))

    def params(self, exclude=()):
        r = self.rng
        out = []
        for name in r.sample(PARAM_POOL, r.choice((0, 0, 0, 1, 1, 2, 3))):
            if name.upper() in exclude:
                continue
            if r.randrange(5) == 0:
                v = ("l",) + tuple(self.param_value() for _ in range(r.randrange(2, 4)))
            else:
                v = self.param_value()
            out.append((name if r.randrange(4) else name.lower(), v))
        return tuple(out)

    def tz(self, allow_custom=True):
        r = self.rng
        k = r.randrange(10)
        if k < 2:
            return None
        if k < 4:
            return "UTC"
        if k < 5 and allow_custom and self.custom_ids:
            return "custom:" + r.choice(self.custom_ids)
        if not self.api_safe and r.randrange(10) == 0:
            # ids other producers write for the same zones: a leading slash, Windows display names
            return "zone:" + r.choice(ALIAS_ZONES)
        return "zone:" + r.choice(ZONES)

    def year(self, early_ok=True):
        r = self.rng
        if early_ok and r.randrange(25) == 0:
            return r.choice((1, 9, 99, 100, 999, 1000, 1582, 1899, 9999))
        return r.randrange(1970, 2037)

    def date(self):
        r = self.rng
        return ("d", self.year(), r.randrange(1, 13), r.randrange(1, 29))

    def dt(self, tz="any", allow_custom=True):
        r = self.rng
        if tz == "any":
            tz = self.tz(allow_custom)
        # keep wall times out of the 00:00-04:00 window so that gaps/folds (C11's subject) are not hit here
        y = self.year(early_ok=tz in (None, "UTC"))
        return ("dt", max(y, 1971) if tz not in (None, "UTC") else y, r.randrange(1, 13), r.randrange(1, 29), r.randrange(5, 24), r.randrange(60), r.randrange(60), tz)

    def td(self, positive=True):
        r = self.rng
        s = r.choice((0, 60, 900, 3600, 5400, 86400, 90000, 604800, r.randrange(0, 10 ** 6)))
        return ("td", s if positive or r.randrange(2) else -s)

    def date_or_dt(self, allow_custom=True):
        return self.date() if self.rng.randrange(3) == 0 else self.dt(allow_custom=allow_custom)

    def period(self, tz):
        s = self.dt(tz)
        if self.rng.randrange(2) or s[1] >= 9999:
            return ("period", s, ("td", self.rng.choice((900, 3600, 86400, 5400))))
        e = list(s)
        e[1] = e[1] + 1
        return ("period", s, tuple(e))

    def recur(self):
        r = self.rng
        parts = [("FREQ", (r.choice(("DAILY", "WEEKLY", "MONTHLY", "YEARLY", "HOURLY")),))]
        k = r.randrange(3)
        if k == 0:
            parts.append(("COUNT", (r.randrange(1, 50),)))
        elif k == 1:
            parts.append(("UNTIL", (r.choice((self.date(), self.dt("UTC"), self.dt(None))),)))
        if r.randrange(2):
            parts.append(("INTERVAL", (r.randrange(1, 5),)))
        if r.randrange(2):
            parts.append(("BYDAY", tuple(r.choice(("MO", "TU", "-1SU", "2FR", "+3WE", "SA")) for _ in range(r.randrange(1, 4)))))
        if r.randrange(3) == 0:
            parts.append(("BYMONTH", tuple(r.randrange(1, 13) for _ in range(r.randrange(1, 3)))))
        if r.randrange(4) == 0:
            parts.append(("BYMONTHDAY", tuple(r.choice((1, 15, -1, 31)) for _ in range(r.randrange(1, 3)))))
        if r.randrange(5) == 0:
            parts.append(("WKST", (r.choice(("MO", "SU")),)))
        return ("recur", tuple(parts))

    # ---- properties
    def text_prop(self, name=None):
        return (name or self.rng.choice(TEXT_PROPS), self.params(), ("text", self.text()))

    def common_props(self, kind):
        r = self.rng
        self.uid += 1
        props = [("UID", (), ("text", f"uid-{self.uid}@example.com")), ("DTSTAMP", (), self.dt("UTC"))]
        start = self.date_or_dt()
        if kind in ("VEVENT", "VTODO", "VJOURNAL", "VFREEBUSY"):
            if kind == "VFREEBUSY" and start[0] == "d":
                start = self.dt("UTC")
            props.append(("DTSTART", self.params(("VALUE", "TZID")) if r.randrange(4) == 0 else (), start))
        if kind == "VEVENT":
            k = r.randrange(3)
            if k == 0:
                props.append(("DTEND", (), self.later(start)))
            elif k == 1:
                props.append(("DURATION", (), ("td", 86400 * r.randrange(1, 4)) if start[0] == "d" else self.td()))
        if kind == "VTODO":
            k = r.randrange(3)
            if k == 0:
                props.append(("DUE", (), self.later(start)))
            elif k == 1:
                props.append(("DURATION", (), ("td", 86400) if start[0] == "d" else self.td()))
            if r.randrange(3) == 0:
                # (a floating COMPLETED is not what the RFC wants, but it is a value the library takes and writes as given - unlike
                #  DTSTAMP/CREATED/LAST-MODIFIED, whose conversion to UTC in add() is documented, S7)
                props.append(("COMPLETED", (), self.dt("UTC") if r.randrange(4) else self.dt(None)))
            if r.randrange(3) == 0:
                props.append(("PERCENT-COMPLETE", (), ("int", r.randrange(0, 101))))
        for _ in range(r.randrange(0, 4)):
            props.append(self.text_prop())
        if r.randrange(2):
            props.append(("SUMMARY", self.params(), ("text", self.text())))
        if r.randrange(3) == 0:
            props.append(("CATEGORIES", (), ("categories", tuple(self.text(2) for _ in range(r.randrange(1, 4))))))
        if self.multi_resources and r.randrange(6) == 0 and kind in ("VEVENT", "VTODO"):
            props.append(("RESOURCES", (), ("textlist", tuple(self.text(2) or "r" for _ in range(r.randrange(1, 4))))))
        if r.randrange(4) == 0 and kind in ("VEVENT", "VTODO"):
            lat = r.choice((round(r.uniform(-90, 90), r.randrange(0, 7)), 1e-05, 2.5e-07, -1.2345e-05, 0.0, 89.99999999999))
            lon = r.choice((round(r.uniform(-180, 180), r.randrange(0, 7)), 3.3e-06, -9.87654321e-05, 1e-10, 179.999999999))
            props.append(("GEO", (), ("geo", lat, lon)))
        if r.randrange(4) == 0:
            props.append((r.choice(("PRIORITY", "SEQUENCE")), (), ("int", r.randrange(0, 10))))
        if r.randrange(4) == 0:
            props.append(("URL", (), ("uri", r.choice(("http://example.com/a,b;c", "https://example.org/p?q=1&r=2", "urn:x:y")))))
        for _ in range(r.choice((0, 0, 1, 2, 3))):
            props.append(("ATTENDEE", self.params(), ("caladdress", f"mailto:user{r.randrange(100)}@example.com")))
        if r.randrange(4) == 0:
            props.append(("ORGANIZER", self.params(), ("caladdress", "mailto:boss@example.com")))
        if r.randrange(4) == 0 and kind != "VFREEBUSY":
            props.append(("RRULE", (), self.recur()))
            if r.randrange(6) == 0:
                props.append((r.choice(("RRULE", "EXRULE")), (), self.recur()))       # a second rule; the deprecated EXRULE
        if r.randrange(12) == 0:
            props.append(("RELATED-TO", (("RELTYPE", r.choice(("PARENT", "CHILD", "SIBLING"))),) if r.randrange(2) else (), ("text", f"uid-{r.randrange(5)}@example.com")))
        if r.randrange(15) == 0:
            props.append(("REQUEST-STATUS", (), ("text", r.choice(("2.0;Success", "3.1;Invalid property value;DTSTART:96-Apr-01", "2.8; Success, repeating event ignored.")))))
        tzs = start[7] if start[0] == "dt" else None
        for _ in range(r.choice((0, 0, 0, 1, 2))):
            if kind == "VFREEBUSY":
                break
            name = r.choice(("RDATE", "EXDATE"))
            if start[0] == "d":
                items = tuple(self.date() for _ in range(r.randrange(1, 4)))
            elif name == "RDATE" and r.randrange(4) == 0:
                ptz = tzs if tzs in (None, "UTC") or not self.api_safe else "UTC"
                items = tuple(self.period(ptz) for _ in range(r.randrange(1, 3)))
            elif tzs not in (None, "UTC") and r.randrange(8) == 0:
                items = tuple(self.dt(None) for _ in range(r.randrange(1, 4)))       # floating list next to a zoned start
            else:
                items = tuple(self.dt(tzs) for _ in range(r.randrange(1, 4)))
            props.append((name, self.params(exclude=("TZID", "VALUE")) if r.randrange(4) == 0 else (), ("datelist", items)))
        if r.randrange(5) == 0 and kind in ("VEVENT", "VTODO", "VJOURNAL"):
            props.append(("RECURRENCE-ID", (), start))
        if r.randrange(5) == 0:
            props.append(("CREATED", (), self.dt("UTC")))
            props.append(("LAST-MODIFIED", (), self.dt("UTC")))
        if kind == "VFREEBUSY":
            for _ in range(r.randrange(1, 3)):
                ptz = r.choice(("UTC", "UTC", None, "zone:" + r.choice(ZONES[:3])))          # (UTC is what the RFC wants; a zone is what the library also takes)
                fb = tuple(self.period(ptz) for _ in range(r.randrange(1, 4)))
                props.append(("FREEBUSY", (("FBTYPE", r.choice(("BUSY", "FREE"))),) if r.randrange(2) else (), ("freebusy", fb)))
        if r.randrange(6) == 0:
            props.append(("ATTACH", (("FMTTYPE", "text/plain"),), ("uri", "http://example.com/file.txt")))
        if not self.api_safe and r.randrange(12) == 0:
            # an inline attachment: base64 of octets that are not UTF-8 text - what the line denotes is that base64 text, untouched
            import base64
            payload = bytes(r.randrange(256) for _ in range(r.randrange(1, 40))) + b"\xff\xd8\xff\xe0"
            props.append((r.choice(("ATTACH", "ATTACH", "IMAGE")), (("ENCODING", "BASE64"), ("VALUE", "BINARY")), ("uri", base64.b64encode(payload).decode("ascii"))))
        return props

    def later(self, start):
        r = self.rng
        if start[0] == "d":
            return ("d", min(9999, start[1] + r.randrange(0, 2)), start[2], min(28, start[3] + r.randrange(0, 3)))
        e = list(start)
        e[1] = min(9999 if e[7] in (None, "UTC") else 2037, e[1] + r.randrange(0, 2))
        e[4] = min(23, e[4] + r.randrange(0, 3))
        return tuple(e)

    def alarm(self):
        r = self.rng
        props = [("ACTION", (), ("text", r.choice(("DISPLAY", "AUDIO", "EMAIL"))))]
        k = r.randrange(4)
        if k == 0:
            props.append(("TRIGGER", (), self.dt("UTC")))
        elif k < 3:
            rel = (("RELATED", r.choice(("START", "END"))),) if r.randrange(2) else ()
            props.append(("TRIGGER", rel, ("td", r.choice((-900, -3600, 0, 600, -86400, 86400, -90000)))))
        if r.randrange(2):
            props.append(("REPEAT", (), ("int", r.randrange(0, 5))))
            props.append(("DURATION", (), ("td", r.choice((300, 3600, 86400)))))
        if r.randrange(2):
            props.append(("DESCRIPTION", (), ("text", self.text())))
        if r.randrange(5) == 0:
            props.append(("ACKNOWLEDGED", (), self.dt("UTC")))
        return ("comp", "VALARM", tuple(props), ())

    def timezone(self):
        """a custom zone: one fixed-offset STANDARD observance, id unknown to any tz database"""
        r = self.rng
        tzid = f"Verif/Custom-{r.randrange(10 ** 9)}"        # (ids that need escaping - Exchange's "(UTC+01:00) Amsterdam, Berlin, ..." - are C12's: here they would entangle the placeholder classifier)
        self.custom_ids.append(tzid)
        off = r.choice((-12, -9, -5, -3, 0, 1, 2, 5, 8, 10, 13, 14)) * 3600 + r.choice((0, 0, 0, 1800, 2700))
        if off > 14 * 3600:
            off = 14 * 3600
        oprops = [("DTSTART", (), ("dt", 1970, 1, 1, 0, 0, 0, None)), ("TZOFFSETFROM", (), ("utcoffset", off)),
                  ("TZOFFSETTO", (), ("utcoffset", off)), ("TZNAME", (), ("text", "VST"))]
        zprops = [("TZID", (), ("text", tzid))]
        # properties without meaning for the zone that real producers write (X-LIC-LOCATION, X-MICROSOFT-..., COMMENT): they have to
        # survive like any other property, in the definition and inside its observances
        if r.randrange(3) == 0:
            oprops.append((r.choice(("X-VERIF-OBS", "COMMENT", "X-MICROSOFT-CDO-TZID")), (), ("text", r.choice(("note", "11", "Custom Standard Time")))))
            if r.randrange(2):
                r.shuffle(oprops)
        if r.randrange(3) == 0:
            zprops.append(r.choice((("X-LIC-LOCATION", (), ("text", tzid)), ("X-VERIF-ZONE", (), ("text", "zone note")), ("TZURL", (), ("uri", "http://example.com/tz/" + tzid)),
                                    ("LAST-MODIFIED", (), ("dt", 2020, 1, 2, 3, 4, 5, "UTC")))))
        sub = ("comp", "STANDARD", tuple(oprops), ())
        return ("comp", "VTIMEZONE", tuple(zprops), (sub,))

    def unknown_component(self, depth):
        r = self.rng
        name = r.choice(("X-VERIF-BLOCK", "VAVAILABILITY", "X-GROUP", "VLOCATION", "X-A"))
        props = [self.text_prop(r.choice(("X-VERIF", "X-NOTE", "NAME", "SUMMARY"))) for _ in range(r.randrange(0, 3))]
        subs = []
        if depth < self.max_depth and r.randrange(2):
            for _ in range(r.randrange(1, 3)):
                subs.append(self.unknown_component(depth + 1))
        return ("comp", name, tuple(props), tuple(subs))

    def component(self, kind, depth=1):
        r = self.rng
        props = self.common_props(kind)
        if kind == "VEVENT" and r.randrange(30) == 0:
            # an "all day" event the way Outlook/Exchange write it: date-times at midnight plus a vendor flag - date-times all the same
            tz = r.choice((None, "UTC", "zone:Europe/Berlin"))
            y, mo, d = r.randrange(1971, 2036), r.randrange(1, 13), r.randrange(1, 28)
            props = [p for p in props if p[0] not in ("DTSTART", "DTEND", "DURATION", "RDATE", "EXDATE", "RECURRENCE-ID", "RRULE", "EXRULE")]
            props += [("DTSTART", (), ("dt", y, mo, d, 0, 0, 0, tz)), ("DTEND", (), ("dt", y, mo, d + 1, 0, 0, 0, tz)),
                      ("X-MICROSOFT-CDO-ALLDAYEVENT", (), ("text", "TRUE")), ("X-MICROSOFT-CDO-BUSYSTATUS", (), ("text", "FREE"))]
        r.shuffle(props)
        subs = []
        if kind in ("VEVENT", "VTODO"):
            for _ in range(r.choice((0, 0, 1, 2))):
                subs.append(self.alarm())
        if self.unknown and r.randrange(8) == 0:
            subs.append(self.unknown_component(depth + 1))
        return ("comp", kind, tuple(props), tuple(subs))

    def calendar(self):
        r = self.rng
        props = [("VERSION", (), ("text", "2.0")), ("PRODID", (), ("text", "-//verif//G3//EN"))]
        if r.randrange(3) == 0:
            props.append(("CALSCALE", (), ("text", "GREGORIAN")))
        if r.randrange(3) == 0:
            props.append(("METHOD", (), ("text", r.choice(("PUBLISH", "REQUEST")))))
        if r.randrange(3) == 0:
            props.append(("X-WR-CALNAME", self.params(), ("text", self.text())))
        subs = []
        if self.custom_tz:
            for _ in range(r.choice((0, 1, 1, 2))):
                subs.append(self.timezone())
        for _ in range(r.randrange(1, 5)):
            subs.append(self.component(r.choice(("VEVENT", "VEVENT", "VEVENT", "VTODO", "VJOURNAL", "VFREEBUSY"))))
        if self.unknown and r.randrange(5) == 0:
            subs.append(self.unknown_component(2))
        # unusual shapes: a component with nothing in it; one property name repeated many times
        if r.randrange(12) == 0:
            subs.insert(r.randrange(len(subs) + 1), ("comp", r.choice(("VEVENT", "VTODO", "VJOURNAL", "X-EMPTY") if self.unknown else ("VEVENT", "VTODO", "VJOURNAL")), (), ()))
        if r.randrange(15) == 0 and subs:
            i = r.randrange(len(subs))
            c = subs[i]
            if c[1] in ("VEVENT", "VTODO", "VJOURNAL"):
                name = r.choice(("ATTENDEE", "COMMENT", "X-MANY"))
                many = tuple((name, (), ("caladdress", f"mailto:many{j}@example.com") if name == "ATTENDEE" else ("text", f"many {j}")) for j in range(r.randrange(20, 45)))
                subs[i] = (c[0], c[1], c[2] + many, c[3])
        # unusual sizes (about one calendar in forty): a very long text, hundreds of values of one name, a parameter with 200 items,
        # a chain of forty nested components
        if r.randrange(40) == 0 and subs:
            i = r.randrange(len(subs))
            c = subs[i]
            k = r.randrange(4)
            if k == 0:
                big = " ".join(self.text(6) or "filler" for _ in range(r.randrange(400, 2500)))
                subs[i] = (c[0], c[1], c[2] + (("DESCRIPTION" if c[1] != "VTIMEZONE" else "COMMENT", (), ("text", big)),), c[3])
            elif k == 1 and c[1] in ("VEVENT", "VTODO", "VJOURNAL"):
                many = tuple(("ATTENDEE", (("CN", f"Person {j}"),) if j % 7 == 0 else (), ("caladdress", f"mailto:p{j}@example.com")) for j in range(r.randrange(150, 500)))
                subs[i] = (c[0], c[1], c[2] + many, c[3])
            elif k == 2:
                items = ("l",) + tuple(f"mailto:m{j}@example.com" for j in range(200))
                subs[i] = (c[0], c[1], c[2] + (("X-VERIF-WIDE", (("MEMBER", items),), ("text", "wide")),), c[3])
            elif self.unknown:
                node = ("comp", "X-DEEP", (("X-NOTE", (), ("text", "bottom")),), ())
                for j in range(40):
                    node = ("comp", "X-DEEP", (("X-LEVEL", (), ("int", j)),) if j % 9 == 0 else (), (node,))
                subs.append(node)
        return ("comp", "VCALENDAR", tuple(props), tuple(subs))


# ---------------------------------------------------------------- emitter (RFC 5545, independent)
def fmt_dt(v):
    if v[0] == "d":
        return f"{v[1]:04}{v[2]:02}{v[3]:02}"
    t = f"{v[1]:04}{v[2]:02}{v[3]:02}T{v[4]:02}{v[5]:02}{v[6]:02}"
    return t + "Z" if v[7] == "UTC" else t


def fmt_td(s):
    sign = "-" if s < 0 else ""
    s = abs(s)
    d, rem = divmod(s, 86400)
    h, rem2 = divmod(rem, 3600)
    m, sec = divmod(rem2, 60)
    if rem == 0:
        if d % 7 == 0 and d:
            return f"{sign}P{d // 7}W"
        return f"{sign}P{d}D"
    t = f"T{h}H{m}M{sec}S"
    return f"{sign}P{d}D{t}" if d else f"{sign}P{t}"


def fmt_offset(s):
    sign = "-" if s < 0 else "+"
    s = abs(s)
    h, rem = divmod(s, 3600)
    m, sec = divmod(rem, 60)
    return f"{sign}{h:02}{m:02}" + (f"{sec:02}" if sec else "")


def fmt_float(x):
    from decimal import Decimal
    return format(Decimal(repr(float(x))), "f")


def tzid_of(tz):
    if tz in (None, "UTC"):
        return None
    return tz.split(":", 1)[1]


def fmt_period(p):
    return fmt_dt(p[1]) + "/" + (fmt_td(p[2][1]) if p[2][0] == "td" else fmt_dt(p[2]))


def emit_value(name, v):
    """-> (derived parameters, value text)"""
    k = v[0]
    if k == "text":
        return {}, R1.encode(v[1])
    if k in ("uri", "caladdress"):
        return {}, v[1]
    if k == "int":
        return {}, str(v[1])
    if k == "geo":
        return {}, f"{fmt_float(v[1])};{fmt_float(v[2])}"
    if k == "d":
        return {"VALUE": "DATE"}, fmt_dt(v)
    if k == "dt":
        p = {}
        if name == "TRIGGER":
            p["VALUE"] = "DATE-TIME"
        if tzid_of(v[7]):
            p["TZID"] = tzid_of(v[7])
        return p, fmt_dt(v)
    if k == "td":
        return {}, fmt_td(v[1])
    if k == "utcoffset":
        return {}, fmt_offset(v[1])
    if k in ("categories", "textlist"):
        return {}, ",".join(R1.encode(x) for x in v[1])
    if k == "period":
        p = {"VALUE": "PERIOD"} if name != "FREEBUSY" else {}
        if tzid_of(v[1][7]):
            p["TZID"] = tzid_of(v[1][7])
        return p, fmt_period(v)
    if k == "freebusy":
        p = {}
        if tzid_of(v[1][0][1][7]):
            p["TZID"] = tzid_of(v[1][0][1][7])
        return p, ",".join(fmt_period(x) for x in v[1])
    if k == "datelist":
        first = v[1][0]
        p = {}
        if first[0] == "d":
            p["VALUE"] = "DATE"
        elif first[0] == "period":
            p["VALUE"] = "PERIOD"
        tz = first[7] if first[0] == "dt" else first[1][7] if first[0] == "period" else None
        if tzid_of(tz):
            p["TZID"] = tzid_of(tz)
        return p, ",".join(fmt_period(x) if x[0] == "period" else fmt_dt(x) for x in v[1])
    if k == "recur":
        parts = []
        for key, items in v[1]:
            parts.append(key + "=" + ",".join(fmt_dt(i) if isinstance(i, tuple) else str(i) for i in items))
        return {}, ";".join(parts)
    raise ValueError(v)


def quote_param(v):
    if any(c in v for c in ':;,'):
        return '"' + v + '"'
    if len(v) % 3 == 1 and '"' not in v:
        return '"' + v + '"'            # a writer may quote any value (a third of the others, chosen by length)
    return v


def emit_params(params, derived):
    out = []
    for k, v in list(params) + sorted(derived.items()):
        if isinstance(v, tuple) and v and v[0] == "l":
            out.append(f";{k}=" + ",".join(quote_param(x) for x in v[1:]))
        else:
            out.append(f";{k}={quote_param(v)}")
    return "".join(out)


def emit_lines(model, interleave=None):
    """interleave: a random.Random - subcomponents are then placed between the properties (any order is well-formed);
    VTIMEZONEs stay in front so that zones are defined before use (zone scope is C12's subject)."""
    _, name, props, subs = model
    lines = [f"BEGIN:{name}"]
    blocks = []
    for pname, params, v in props:
        derived, text = emit_value(pname.upper(), v)
        blocks.append([f"{pname}{emit_params(params, derived)}:{text}"])
    tail = []
    for s in subs:
        sl = emit_lines(s, interleave)
        if interleave is not None and s[1] != "VTIMEZONE" and blocks:
            tail.append((interleave.randrange(len(blocks) + 1), sl))
        else:
            tail.append((len(blocks) if s[1] != "VTIMEZONE" else -1, sl))
    for pos, sl in tail:
        if pos == -1:
            lines.extend(sl)
    for i, b in enumerate(blocks + [[]]):
        for pos, sl in tail:
            if pos == i:
                lines.extend(sl)
        lines.extend(b)
    lines.append(f"END:{name}")
    return lines


def fold(line, limit=75):
    """fold at the last character boundary that keeps each physical line within ``limit`` octets"""
    out, cur, n = [], [], 0
    first = True
    for ch in line:
        w = len(ch.encode("utf-8"))
        room = limit if first else limit - 1
        if n + w > room:
            out.append("".join(cur))
            cur, n, first = [], 0, False
        cur.append(ch)
        n += w
    out.append("".join(cur))
    return "\r\n ".join(out)


def emit(model, interleave=None):
    return "".join(fold(l) + "\r\n" for l in emit_lines(model, interleave))


# ---------------------------------------------------------------- API builder (G4)
def py_value(v):
    from .. import vals
    k = v[0]
    if k in ("text", "uri", "caladdress"):
        return v[1]
    if k == "int":
        return v[1]
    if k == "geo":
        return (v[1], v[2])
    if k in ("d", "td"):
        return vals.py(v)
    if k == "dt":
        return vals.py(v)
    if k == "utcoffset":
        return vals.py(("td", v[1]))
    if k == "categories":
        return list(v[1])
    if k == "period":
        return (py_value(v[1]), py_value(v[2]))
    if k in ("datelist", "freebusy"):
        return [py_value(x) for x in v[1]]
    if k == "recur":
        return {key: [py_value(i) if isinstance(i, tuple) else i for i in items] for key, items in v[1]}
    raise ValueError(v)


def as_subclass(value):
    from datetime import date, datetime, timedelta

    class VerifDatetime(datetime):
        pass

    class VerifDate(date):
        pass

    class VerifTimedelta(timedelta):
        pass
    if type(value) is datetime:
        return VerifDatetime(value.year, value.month, value.day, value.hour, value.minute, value.second, value.microsecond, tzinfo=value.tzinfo, fold=value.fold)
    if type(value) is date:
        return VerifDate(value.year, value.month, value.day)
    if type(value) is timedelta:
        return VerifTimedelta(days=value.days, seconds=value.seconds, microseconds=value.microseconds)
    return value


SETTERS = {"VEVENT": {"DTSTART": "DTSTART", "DTEND": "DTEND", "DURATION": "DURATION", "DTSTAMP": "DTSTAMP", "LAST-MODIFIED": "LAST_MODIFIED"},
           "VTODO": {"DTSTART": "DTSTART", "DUE": "DUE", "DURATION": "DURATION", "DTSTAMP": "DTSTAMP", "LAST-MODIFIED": "LAST_MODIFIED"},
           "VJOURNAL": {"DTSTART": "DTSTART", "DTSTAMP": "DTSTAMP"},
           "VALARM": {"TRIGGER": "TRIGGER", "DURATION": "DURATION", "ACKNOWLEDGED": "ACKNOWLEDGED", "REPEAT": "REPEAT"}}


def build(model, setters=None):
    """Build the tree through the public API: add(), parameters=, add_component().

    setters: a random.Random - properties that have a descriptor and no parameters are then (sometimes) assigned through the
    property setter, after an earlier assignment of a *different* value of another kind (zoned / UTC / date) that the final
    assignment must replace completely."""
    import icalendar
    from icalendar.cal import Component, component_factory
    from .. import vals
    _, name, props, subs = model
    cls = component_factory.get(name)
    if cls is None:
        comp = Component()
        comp.name = name
    else:
        comp = cls()
    # (zones of this component's VTIMEZONE children are needed by its own and its other children's values)
    prebuilt = {}
    for s in subs:
        if s[1] == "VTIMEZONE":
            tzc = build(s, setters)
            prebuilt[id(s)] = tzc
            tzid = next((p[2][1] for p in s[2] if p[0].upper() == "TZID"), None)
            if tzid is not None:
                vals.CUSTOM_ZONES[tzid] = tzc.to_tz()
    counts = {}
    for pname, params, v in props:
        counts[pname.upper()] = counts.get(pname.upper(), 0) + 1
    # API variety (only with `setters`): occurrences of a repeatable name with identical parameters are (sometimes) handed to one
    # add(name, [v1, v2, ...]) call - after, before or instead of single-value add() calls of the same name; a text property
    # without parameters is (sometimes) stored by item assignment of the plain str, over an earlier, different assignment
    grouped = {}            # index of the first prop of a group -> [values]; members -> None
    if setters is not None:
        last = {}
        for idx, (pname, params, v) in enumerate(props):
            u = pname.upper()
            ok = v[0] in ("text", "uri", "caladdress", "int", "recur", "td", "d", "dt", "period") and u not in ("RDATE", "EXDATE", "CATEGORIES") and counts[u] > 1
            if ok and u in last and props[last[u]][1] == params and props[last[u]][0] == pname and setters.randrange(3):
                grouped.setdefault(last[u], [props[last[u]][2]]).append(v)
                grouped[idx] = None
            elif ok:
                last[u] = idx
            else:
                last.pop(u, None)
    for idx, (pname, params, v) in enumerate(props):
        p = {k: (list(val[1:]) if isinstance(val, tuple) and val and val[0] == "l" else val) for k, val in params}
        if idx in grouped:
            if grouped[idx] is not None:
                comp.add(pname, [py_value(x) for x in grouped[idx]], parameters=p or None)
            continue
        if setters is not None and not p and counts[pname.upper()] == 1 and v[0] == "text" and setters.randrange(5) == 0:
            if setters.randrange(2):
                comp[pname] = "an earlier value; replaced, completely"
            comp[pname] = py_value(v)
            continue
        attr = SETTERS.get(name, {}).get(pname.upper())
        if setters is not None and attr and not p and counts[pname.upper()] == 1 and v[0] in ("d", "dt", "td", "int") and setters.randrange(2):
            if v[0] in ("d", "dt") and setters.randrange(3):
                if attr in ("DTSTAMP", "LAST_MODIFIED", "ACKNOWLEDGED"):
                    prior = vals.py(("dt", 2001, 2, 3, 4, 5, 6, "zone:Asia/Tokyo"))
                elif attr == "TRIGGER":
                    prior = vals.py(("td", -300))
                else:
                    prior = vals.py(setters.choice((("dt", 2001, 2, 3, 14, 5, 6, "zone:Europe/Berlin"), ("d", 2001, 2, 3), ("dt", 2001, 2, 3, 14, 5, 6, "UTC"))))
                setattr(comp, attr, prior)
            setattr(comp, attr, py_value(v))
        else:
            value = py_value(v)
            if setters is not None and v[0] in ("d", "dt", "td") and setters.randrange(6) == 0:
                value = as_subclass(value)          # a date/datetime/timedelta *subclass* instance (what pandas or arrow hand out) is such a value too
            if setters is not None and pname.upper() in ("DTSTAMP", "CREATED", "LAST-MODIFIED") and v[0] == "dt" and v[7] == "UTC" and setters.randrange(2):
                # the same instant in another zone: add() must convert it to UTC (S7)
                value = value.astimezone(vals.tzinfo_for(setters.choice(("zone:Asia/Tokyo", "zone:America/New_York", "zone:Australia/Lord_Howe"))))
            comp.add(pname, value, parameters=p or None)
    # custom zones first: a VTIMEZONE of the model is built through the API, turned into a tzinfo with to_tz() and
    # that tzinfo is what zoned values "custom:<tzid>" of the model carry
    for s in subs:
        if s[1] == "VTIMEZONE":
            comp.add_component(prebuilt[id(s)])
    for s in subs:
        if s[1] != "VTIMEZONE":
            comp.add_component(build(s, setters))
    return comp


def count_props(model):
    return len(model[2]) + sum(count_props(s) for s in model[3])
