"""One shard of one property's workload.  Runs in its own subprocess."""
import faulthandler
import importlib
import json
import os
import sys

from . import paths
from .ctx import Ctx


def load_module(prop):
    return importlib.import_module(f"vmon.props.{prop.lower()}")


def repo_sanity():
    """The monitors must observe the *current working tree* of /repo."""
    import icalendar
    f = os.path.realpath(icalendar.__file__)
    if not f.startswith(os.path.realpath(paths.REPO_SRC) + os.sep):
        raise SystemExit(f"INCONCLUSIVE-WORKER icalendar imported from {f}, not {paths.REPO_SRC}")
    if os.environ.get(paths.GUARD) != "1":
        raise SystemExit("INCONCLUSIVE-WORKER guard env not set")


def main(argv):
    prop, tier, seed, shard, nshards, out = argv
    seed, shard, nshards = int(seed), int(shard), int(nshards)
    module = load_module(prop)
    hard = getattr(module, "HARD_S", {"quick": 600, "thorough": 7200})[tier]
    faulthandler.dump_traceback_later(hard, exit=True)
    repo_sanity()
    ctx = Ctx(module, tier, seed, shard, nshards)
    if getattr(module, "PRELUDE", True):
        from . import prelude
        ctx.count("prelude-calls", prelude.run())        # earlier, unrelated use of the library in this process (see prelude.py)
    ctx.soft_s = getattr(module, "SOFT_S", {"quick": 20, "thorough": 240})[tier] * float(os.environ.get("VERIF_SOFT_SCALE", "1"))
    module.run(ctx)
    res = ctx.result()
    with open(out + ".hashes", "wb") as f:
        f.write(ctx.hashes_bytes())
    tmp = out + ".tmp"
    with open(tmp, "w") as f:
        json.dump(res, f)
    os.replace(tmp, out)
    faulthandler.cancel_dump_traceback_later()


if __name__ == "__main__":
    main(sys.argv[1:])
